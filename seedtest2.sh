#!/bin/bash
# usage: seedtest2.sh <patch.diff> <Cnn> [tier]
# Like seedtest.sh, but works on scratch copies (/tmp/sv = copy of /verif with
# the harness pointed at /tmp/sr = scratch worktree of /repo), so it can run
# while other checks are building from /repo. Remove both when done:
#   git -C /repo worktree remove --force /tmp/sr; rm -rf /tmp/sv
set -u
patch=$(readlink -f "$1"); prop=$2; tier=${3:-quick}
if [ ! -d /tmp/sr ]; then git -C /repo worktree add -q --detach /tmp/sr HEAD || exit 2; fi
git -C /tmp/sr checkout -q --detach $(git -C /repo rev-parse HEAD) && git -C /tmp/sr checkout -- . && git -C /tmp/sr clean -fdq -e target
mkdir -p /tmp/sv
rsync -a --delete --exclude 'target*' --exclude work --exclude replay --exclude qd-target --exclude .git --exclude evidence /verif/ /tmp/sv/
mkdir -p /tmp/sv/evidence
sed -i 's|path = "/repo"|path = "/tmp/sr"|' /tmp/sv/harness/Cargo.toml
git -C /tmp/sr apply "$patch" || { echo "patch does not apply"; exit 2; }
(cd /tmp/sv && QV_REPO=/tmp/sr ./check "$prop" "$tier")
rc=$?
git -C /tmp/sr checkout -- .
echo "reverted; check rc=$rc"
exit $rc
