#!/bin/bash
# usage: seedtest2.sh <patch.diff> <Cnn> [tier]
# Like seedtest.sh, but works on scratch copies ($SV = copy of /verif with
# the harness pointed at $SR = scratch worktree of /repo), so it can run
# while other checks are building from /repo. Remove both when done:
#   git -C /repo worktree remove --force $SR; rm -rf $SV
set -u
patch=$(readlink -f "$1"); prop=$2; tier=${3:-quick}
SFX=${SEEDTEST_SUFFIX:-}
SR=/tmp/sr$SFX; SV=/tmp/sv$SFX
if [ ! -d $SR ]; then git -C /repo worktree add -q --detach $SR HEAD || exit 2; fi
git -C $SR checkout -q --detach $(git -C /repo rev-parse HEAD) && git -C $SR checkout -- . && git -C $SR clean -fdq -e target
mkdir -p $SV
rsync -a --delete --exclude 'target*' --exclude work --exclude replay --exclude qd-target --exclude .git --exclude evidence /verif/ $SV/
mkdir -p $SV/evidence
sed -i "s|path = \"/repo\"|path = \"$SR\"|" $SV/harness/Cargo.toml
git -C $SR apply "$patch" || { echo "patch does not apply"; exit 2; }
(cd $SV && QV_REPO=$SR ./check "$prop" "$tier")
rc=$?
git -C $SR checkout -- .
echo "reverted; check rc=$rc"
exit $rc
