#!/bin/bash
# usage: seedtest.sh <patch.diff> <Cnn> [tier]   -- applies a seeded change to /repo, runs the check, reverts.
set -u
patch="$(readlink -f "$1")"; prop="$2"; tier="${3:-quick}"
cd /repo || exit 2
if ! git diff --quiet; then echo "repo dirty"; exit 2; fi
git apply "$patch" || { echo "patch does not apply"; exit 2; }
cd /verif && ./check "$prop" "$tier" 2>&1 | grep -E "VIOLATION|signature|HELD|VIOLATED|INCONCLUSIVE|KNOWN|HARNESS" | head -12
rc=${PIPESTATUS[0]}
git -C /repo checkout -- . 
echo "reverted; check rc=$rc"
