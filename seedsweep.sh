#!/bin/bash
# Re-runs every seeded change under /verif/seeded against the quick check of the property it
# targets (on scratch copies, see seedtest2.sh) and writes one line per change to
# /verif/work/logs/seedsweep.txt. usage: seedsweep.sh [filter-regex]
export SEEDTEST_SUFFIX=-sweep
out=/verif/work/logs/seedsweep.txt
mkdir -p /verif/work/logs; : > $out
for d in /verif/seeded/*/; do
  name=$(basename $d)
  [[ -n "${1:-}" && ! "$name" =~ $1 ]] && continue
  prop=$(python3 -c "import json;print(json.load(open('$d/meta.json'))['property'])")
  res=$(/verif/seedtest2.sh $d/patch.diff $prop 2>&1 | grep -E "^(HELD|VIOLATED|INCONCLUSIVE|patch does not apply|HARNESS)" | head -1 | cut -c1-60)
  echo "$name $prop ${res:-NO-RESULT}" >> $out
done
echo done >> $out
