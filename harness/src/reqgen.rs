//! Request generators: well-formed queries around a catalog's contents,
//! EDNS variations, TSIG signing by the harness's own HMAC, junk
//! records, and hostile mutations.

use crate::gen::{random_case, QTYPES};
use crate::hmac::{self, Alg, Kind, TsigVars};
use crate::msgbuild::*;
use crate::names::RName;
use crate::rng::Rng;
use crate::srv::Key;
use crate::wire::*;

pub const PAYLOADS: [u16; 12] = [0, 1, 511, 512, 513, 600, 1232, 1233, 4096, 65535, 700, 2000];

pub fn gen_question(rng: &mut Rng, names: &[RName], classes: &[u16]) -> (RName, u16, u16) {
    let picked = rng.pick(names).clone();
    let name = random_case(rng, &picked);
    let qtype = match rng.below(24) {
        0 => *rng.pick(&[T_AXFR, T_IXFR, T_MAILA, T_MAILB]),
        1 => rng.u16(),
        2 => *rng.pick(&[T_OPT, T_TSIG, T_NULL, T_HINFO, 0]),
        _ => *rng.pick(&QTYPES),
    };
    let qclass = match rng.below(20) {
        0 => C_ANY,
        1 => *rng.pick(&[C_NONE, 0, 2, 65280, C_HS]),
        _ => *rng.pick(classes),
    };
    (name, qtype, qclass)
}

/// A well-formed QUERY (optionally with EDNS and harmless extra records).
pub fn gen_query(rng: &mut Rng, names: &[RName], classes: &[u16], edns_chance: (usize, usize)) -> MsgSpec {
    let (name, qtype, qclass) = gen_question(rng, names, classes);
    let mut spec = MsgSpec {
        id: rng.u16(),
        flags: if rng.chance(1, 3) { 0x0100 } else { 0 },
        ..Default::default()
    };
    spec.questions.push((Some(NameEnc::Plain(name)), qtype, qclass));
    if rng.chance(edns_chance.0, edns_chance.1) {
        let payload = if rng.chance(1, 4) { rng.u16() } else { *rng.pick(&PAYLOADS) };
        let flags = if rng.chance(1, 3) { 0x8000 } else { 0 };
        spec.additionals.push(opt_record(payload, 0, 0, flags, Vec::new()));
    }
    spec
}

pub fn junk_record(rng: &mut Rng, names: &[RName]) -> RecSpec {
    let owner = rng.pick(names).clone();
    let (rtype, rdata) = match rng.below(4) {
        0 => (T_A, vec![1, 2, 3, 4]),
        1 => (T_NS, RName::simple("junk.example.").wire()),
        2 => (T_TXT, vec![3, b'a', b'b', b'c']),
        _ => (99, rng.bytes_below(9)),
    };
    RecSpec::new(if rng.bool() { NameEnc::Compressed(owner) } else { NameEnc::Plain(owner) }, rtype, C_IN, rng.u32(), rdata)
}

#[derive(Clone, Debug)]
pub struct SignOpts {
    pub time: u64,
    pub fudge: u16,
    /// truncate the MAC to this many octets
    pub mac_len: Option<usize>,
    /// replace the algorithm name in the RR (digest still uses `key.alg`)
    pub alg_name_override: Option<RName>,
    /// key name spelled differently in the RR
    pub key_name_override: Option<RName>,
    pub original_id: Option<u16>,
    pub error: u16,
    pub other: Vec<u8>,
    pub class: u16,
    pub ttl: u32,
    /// flip one bit of the MAC
    pub corrupt_mac: bool,
}

impl SignOpts {
    pub fn at(time: u64) -> Self {
        SignOpts {
            time,
            fudge: 300,
            mac_len: None,
            alg_name_override: None,
            key_name_override: None,
            original_id: None,
            error: 0,
            other: Vec::new(),
            class: C_ANY,
            ttl: 0,
            corrupt_mac: false,
        }
    }
}

/// Appends a TSIG record signed by the harness's HMAC to a complete
/// message and returns (signed message, full MAC, MAC as sent).
pub fn sign_request(msg: &[u8], key: &Key, o: &SignOpts) -> (Vec<u8>, Vec<u8>, Vec<u8>) {
    let mut m = msg.to_vec();
    let id = u16::from_be_bytes([m[0], m[1]]);
    let original_id = o.original_id.unwrap_or(id);
    let ar = u16::from_be_bytes([m[10], m[11]]).wrapping_add(1);
    m[10..12].copy_from_slice(&ar.to_be_bytes());
    let key_name = o.key_name_override.clone().unwrap_or_else(|| key.name.clone());
    let vars = TsigVars {
        key_name: key_name.clone(),
        algorithm: o.alg_name_override.clone().unwrap_or_else(|| key.alg.name()),
        time_signed: o.time,
        fudge: o.fudge,
        error: o.error,
        other: o.other.clone(),
    };
    let full = hmac::tsig_mac(key.alg, &key.secret, Kind::Request, &[], &m, original_id, &vars);
    let mut sent = full.clone();
    if let Some(l) = o.mac_len {
        sent.truncate(l);
        while sent.len() < l {
            sent.push(0x5a);
        }
    }
    if o.corrupt_mac && !sent.is_empty() {
        let i = sent.len() / 2;
        sent[i] ^= 0x10;
    }
    let rdata = hmac::tsig_rdata(&vars, &sent, original_id);
    let mut e = Encoder::new();
    e.msg = m;
    e.put_record(&RecSpec::new(NameEnc::Plain(key_name), T_TSIG, o.class, o.ttl, rdata));
    (e.msg, full, sent)
}

/// Hostile request: random octets, a prefix of a valid request, or a
/// mutated valid request.
pub fn gen_hostile(rng: &mut Rng, base: &[u8], layout: &Layout) -> Vec<u8> {
    match rng.below(10) {
        0 => {
            let n = if rng.chance(1, 30) { rng.below(65535) } else { rng.below(80) };
            let mut v = rng.bytes(n);
            if v.len() > 3 && rng.chance(2, 3) {
                v[2] &= 0x7f; // QR clear so that it gets processed
                if v.len() > 5 && rng.chance(1, 2) {
                    v[4] = 0;
                    v[5] = rng.below(2) as u8;
                }
            }
            v
        }
        1 | 2 => {
            let cut = rng.below(base.len() + 1);
            base[..cut].to_vec()
        }
        _ => {
            let mut v = base.to_vec();
            let n = rng.range(1, 3);
            for _ in 0..n {
                mutate(rng, &mut v, layout);
            }
            v
        }
    }
}
