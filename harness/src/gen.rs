//! Seeded generators for zones, catalogs and queries, and construction
//! of the corresponding quandary objects through the public API only.

use std::sync::Arc;

use quandary::class::Class;
use quandary::db::catalog::Entry;
use quandary::db::zone::GluePolicy;
use quandary::db::{Error as DbError, HashMapTreeCatalog, HashMapTreeZone};
use quandary::name::Name;
use quandary::rr::{Rdata, Ttl, Type};

use crate::names::RName;
use crate::rdataref as rr;
use crate::rng::Rng;
use crate::wire::*;
use crate::zonemodel::*;

pub type QCatalog = HashMapTreeCatalog<HashMapTreeZone, u64>;

pub fn qname(n: &RName) -> Box<Name> {
    Name::try_from_uncompressed_all(&n.wire()).expect("valid reference name rejected by quandary")
}

/// Set under Miri: the MX fan-out and the >16 KiB RRset are left out of bulky zones.
pub static SMALL_ZONES: std::sync::atomic::AtomicBool = std::sync::atomic::AtomicBool::new(false);

pub const LABELS: [&[u8]; 10] = [b"a", b"b", b"*", b"c", b"ns", b"www", b"A", b"mail", b"z", b"Zy"];

#[derive(Clone, Debug)]
pub struct ZoneOpts {
    /// maximum number of extra records
    pub max_records: usize,
    /// include malformed RDATA, missing SOA, duplicate CNAMEs, ...
    pub hostile: bool,
    /// large RRsets / long names (for truncation tests)
    pub bulky: bool,
}

pub fn rel_name(rng: &mut Rng, apex: &RName, max_depth: usize) -> RName {
    let depth = match rng.below(10) {
        0 => 0,
        1..=5 => 1,
        6..=8 => 2,
        _ => 3,
    }
    .min(max_depth);
    let mut n = apex.clone();
    for _ in 0..depth {
        let c = n.child(*rng.pick(&LABELS));
        if c.is_valid() {
            n = c;
        }
    }
    n
}

fn flip_case(rng: &mut Rng, n: &RName) -> RName {
    let mut m = n.clone();
    for l in m.0.iter_mut() {
        for c in l.iter_mut() {
            if c.is_ascii_alphabetic() && rng.chance(1, 3) {
                *c ^= 0x20;
            }
        }
    }
    m
}

fn ttl_for(rng: &mut Rng, owner: &RName, rtype: u16, hostile: bool) -> u32 {
    // deterministic per (owner, type) so that repeated adds normally agree
    let h = crate::rng::fnv1a(&[owner.lower().wire(), rtype.to_be_bytes().to_vec()].concat());
    let base = [0u32, 60, 300, 3600, 86400, 0x7fff_ffff][(h % 6) as usize];
    if hostile && rng.chance(1, 25) {
        *rng.pick(&[0u32, 61, 0x8000_0000, 0xffff_ffff])
    } else {
        base
    }
}

pub fn soa_rdata(mname: &RName, rname: &RName, serial: u32, minimum: u32) -> Vec<u8> {
    let mut v = mname.wire();
    v.extend(rname.wire());
    v.extend_from_slice(&serial.to_be_bytes());
    v.extend_from_slice(&3600u32.to_be_bytes());
    v.extend_from_slice(&600u32.to_be_bytes());
    v.extend_from_slice(&86400u32.to_be_bytes());
    v.extend_from_slice(&minimum.to_be_bytes());
    v
}

/// Generates the records of a zone (not yet added anywhere).
pub fn gen_zone_records(rng: &mut Rng, apex: &RName, class: u16, opts: &ZoneOpts) -> Vec<RRec> {
    let mut recs: Vec<RRec> = Vec::new();
    let mut push = |recs: &mut Vec<RRec>, rng: &mut Rng, owner: RName, rtype: u16, rdata: Vec<u8>| {
        let ttl = ttl_for(rng, &owner, rtype, opts.hostile);
        recs.push(RRec {
            owner,
            rtype,
            class,
            ttl,
            rdata,
        });
    };
    // apex SOA and NS
    if !(opts.hostile && rng.chance(1, 10)) {
        let minimum = *rng.pick(&[0u32, 30, 300, 3600, 86400 * 7]);
        let m = rel_name(rng, apex, 2);
        let r = rel_name(rng, apex, 2);
        let soa_ttl = *rng.pick(&[0u32, 60, 300, 3600, 86400]);
        recs.push(RRec {
            owner: flip_case(rng, apex),
            rtype: T_SOA,
            class,
            ttl: soa_ttl,
            rdata: soa_rdata(&m, &r, rng.u32(), minimum),
        });
    }
    let n_ns = rng.range(1, 2);
    for _ in 0..n_ns {
        let t = if rng.chance(2, 3) { apex.child(*rng.pick(&LABELS)) } else { RName::simple("ns.elsewhere.") };
        if t.is_valid() {
            push(&mut recs, rng, apex.clone(), T_NS, t.wire());
        }
    }
    let n = rng.range(2, opts.max_records.max(2));
    for _ in 0..n {
        let owner = rel_name(rng, apex, 3);
        let owner = if rng.chance(1, 4) { flip_case(rng, &owner) } else { owner };
        match rng.below(20) {
            0..=4 => {
                let rd = if class == C_IN {
                    vec![10, 0, rng.below(3) as u8, rng.below(4) as u8]
                } else if class == C_CH {
                    let mut v = RName::simple("ch-net.").wire();
                    v.extend_from_slice(&(rng.below(4) as u16).to_be_bytes());
                    v
                } else {
                    rng.bytes(4)
                };
                push(&mut recs, rng, owner, T_A, rd);
            }
            5 | 6 => {
                if class == C_IN {
                    let mut rd = vec![0x20, 0x01, 0x0d, 0xb8, 0, 0, 0, 0, 0, 0, 0, 0, 0, 0, 0, 0];
                    rd[15] = rng.below(3) as u8;
                    push(&mut recs, rng, owner, T_AAAA, rd);
                }
            }
            7 | 8 | 9 => {
                // delegation (or apex NS) with optional glue
                if owner.0.len() > apex.0.len() {
                    let n_ns = rng.range(1, 3);
                    for _ in 0..n_ns {
                        let target = match rng.below(4) {
                            0 => owner.child(*rng.pick(&LABELS)),
                            1 => owner.clone(),
                            2 => rel_name(rng, apex, 2),
                            _ => RName::simple("ns.out-of-zone."),
                        };
                        if !target.is_valid() {
                            continue;
                        }
                        push(&mut recs, rng, owner.clone(), T_NS, target.wire());
                        if target.is_at_or_below(apex) && rng.chance(2, 3) {
                            let glue = if class == C_CH {
                                let mut v = RName::simple("ch-net.").wire();
                                v.extend_from_slice(&[0, 1]);
                                v
                            } else {
                                vec![192, 0, 2, rng.below(5) as u8]
                            };
                            push(&mut recs, rng, target.clone(), T_A, glue);
                            if class == C_IN && rng.bool() {
                                push(&mut recs, rng, target, T_AAAA, vec![0x20, 1, 0xd, 0xb8, 0, 0, 0, 0, 0, 0, 0, 0, 0, 0, 0, 9]);
                            }
                        }
                    }
                }
            }
            10 | 11 | 12 => {
                let target = match rng.below(6) {
                    0 => RName::simple("target.out-of-zone."),
                    _ => rel_name(rng, apex, 3),
                };
                if owner.0.len() > apex.0.len() || opts.hostile {
                    push(&mut recs, rng, owner, T_CNAME, target.wire());
                }
            }
            13 | 14 => {
                let target = rel_name(rng, apex, 2);
                let mut rd = (rng.below(3) as u16 * 10).to_be_bytes().to_vec();
                rd.extend(target.wire());
                push(&mut recs, rng, owner, T_MX, rd);
            }
            15 => {
                if class == C_IN {
                    let target = rel_name(rng, apex, 2);
                    let mut rd = vec![0, 1, 0, 2, 0, 53];
                    rd.extend(target.wire());
                    push(&mut recs, rng, owner, T_SRV, rd);
                }
            }
            16 => {
                let len = rng.range(1, 20);
                let mut rd = vec![len as u8];
                rd.extend((0..len).map(|_| *rng.pick(b"txt ")));
                push(&mut recs, rng, owner, T_TXT, rd);
            }
            17 => {
                let t = *rng.pick(&[T_MB, T_MD, T_MF, T_PTR, T_MG, T_MR]);
                let target = rel_name(rng, apex, 2);
                push(&mut recs, rng, owner, t, target.wire());
            }
            18 => {
                let len = rng.below(12);
                let rd = rng.bytes(len);
                let t = *rng.pick(&[99u16, 65280, T_NULL, T_HINFO]);
                push(&mut recs, rng, owner, t, rd);
            }
            _ => {
                if opts.hostile {
                    // malformed RDATA for a type the server interprets, out-of-zone owner, wrong class
                    let (c, t) = *rng.pick(rr::GEN_TYPES);
                    let mut f = |r: &mut Rng| rel_name(r, apex, 2);
                    let valid = rr::gen_valid(rng, c, t, &mut f);
                    let rd = rr::mutate(rng, &valid);
                    let owner = if rng.chance(1, 6) { RName::simple("other.example.") } else { owner };
                    let ttl = ttl_for(rng, &owner, t, true);
                    let cls = if rng.chance(1, 8) { C_HS } else { class };
                    if t != T_OPT && t != T_TSIG {
                        recs.push(RRec { owner, rtype: t, class: cls, ttl, rdata: rd });
                    }
                }
            }
        }
    }
    if opts.bulky {
        // one big RRset and one long owner name
        let owner = rel_name(rng, apex, 2);
        let n = rng.range(10, 80);
        for i in 0..n {
            let rd = if class == C_CH {
                let mut v = RName::simple("ch-net.").wire();
                v.extend_from_slice(&(i as u16).to_be_bytes());
                v
            } else {
                vec![10, 1, (i >> 8) as u8, i as u8]
            };
            push(&mut recs, rng, owner.clone(), T_A, rd);
        }
        let mut long = apex.clone();
        for _ in 0..3 {
            let l: Vec<u8> = (0..rng.range(40, 63)).map(|_| *rng.pick(b"xy")).collect();
            let c = long.child(&l);
            if c.is_valid() {
                long = c;
            }
        }
        let n = rng.range(1, 12);
        for i in 0..n {
            let mut rd = vec![0, i as u8];
            rd.extend(long.child(*rng.pick(&LABELS)).wire().iter());
            if RName::from_wire_all(&rd[2..]).is_some() {
                push(&mut recs, rng, long.clone(), T_MX, rd);
            }
        }
        let n_txt = rng.below(6);
        for i in 0..n_txt {
            let mut rd = vec![200u8];
            rd.extend(std::iter::repeat(b'a' + i as u8).take(200));
            push(&mut recs, rng, owner.clone(), T_TXT, rd);
        }
        let small = SMALL_ZONES.load(std::sync::atomic::Ordering::Relaxed);
        if class == C_IN && !small && rng.chance(1, 3) {
            // an MX RRset of 17-40 exchanges whose address RRsets differ in size (0-14 records), with
            // exchange names nested in one another: over UDP, optional address RRsets stop fitting
            // somewhere in the middle of additional-section processing and later ones fit again
            let fan = apex.child(b"fan");
            let n = rng.range(17, 40);
            let mut prev: Option<RName> = None;
            for i in 0..n {
                let target = match (&prev, rng.below(3)) {
                    (Some(p), 0) => p.child(*rng.pick(&LABELS)),
                    _ => apex.child(format!("big{}", i).as_bytes()),
                };
                if !fan.is_valid() || !target.is_valid() {
                    continue;
                }
                let mut rd = vec![0, i as u8];
                rd.extend(target.wire());
                recs.push(RRec { owner: fan.clone(), rtype: T_MX, class, ttl: 300, rdata: rd });
                let n_addr = *rng.pick(&[0usize, 0, 1, 1, 2, 8, 14]);
                for k in 0..n_addr {
                    recs.push(RRec { owner: target.clone(), rtype: T_A, class, ttl: 300, rdata: vec![10, 9, i as u8, k as u8] });
                }
                prev = Some(target);
            }
        }
        if class == C_IN && !small && rng.chance(1, 12) {
            // one RRset whose response is larger than 16 KiB (TCP only): exchange names whose
            // suffix labels first appear beyond offset 16383, where a 14-bit compression
            // pointer cannot reach
            let huge = apex.child(b"huge");
            let n = rng.range(700, 1100);
            let per_suffix = rng.range(5, 40);
            for i in 0..n {
                let target = apex.child(format!("sfx{}", i / per_suffix).as_bytes()).child(format!("t{}", i).as_bytes());
                if huge.is_valid() && target.is_valid() {
                    let mut rd = vec![(i >> 8) as u8, i as u8];
                    rd.extend(target.wire());
                    recs.push(RRec { owner: huge.clone(), rtype: T_MX, class, ttl: 300, rdata: rd });
                }
            }
        }
    }
    recs
}

pub fn db_err(e: DbError) -> AddErr {
    match e {
        DbError::NotInZone => AddErr::NotInZone,
        DbError::ClassMismatch => AddErr::ClassMismatch,
        DbError::TtlMismatch => AddErr::TtlMismatch,
        #[allow(unreachable_patterns)]
        _ => AddErr::NotInZone,
    }
}

/// Adds the records to both the reference zone and a quandary zone.
/// Returns the two zones and any disagreement on add() results.
pub fn build_zone(apex: &RName, class: u16, recs: &[RRec]) -> (RefZone, HashMapTreeZone, Vec<String>) {
    let mut rz = RefZone::new(apex.clone(), class);
    let mut qz = HashMapTreeZone::new(qname(apex), Class::from(class), GluePolicy::Narrow);
    let mut disagreements = Vec::new();
    for rec in recs {
        let want = rz.add(rec.clone());
        let rdata: &Rdata = rec.rdata.as_slice().try_into().unwrap();
        let got = qz
            .add(&qname(&rec.owner), Type::from(rec.rtype), Class::from(rec.class), Ttl::from(rec.ttl), rdata)
            .map_err(db_err);
        if want != got {
            disagreements.push(format!("add({} type {} class {} ttl {}) -> {:?}, reference {:?}", rec.owner.to_text(), rec.rtype, rec.class, rec.ttl, got, want));
        }
    }
    (rz, qz, disagreements)
}

#[derive(Clone, Debug)]
pub struct CatalogOpts {
    pub zone: ZoneOpts,
    pub max_zones: usize,
    pub allow_unloaded: bool,
    pub classes: Vec<u16>,
}

pub struct BuiltCatalog {
    pub reference: RefCatalog,
    pub catalog: QCatalog,
    pub disagreements: Vec<String>,
}

pub const APEXES: [&str; 7] = ["z.", "sub.z.", "a.sub.z.", "example.test.", ".", "b.z.", "other."];

pub fn gen_catalog(rng: &mut Rng, opts: &CatalogOpts) -> BuiltCatalog {
    let mut reference = RefCatalog::default();
    let mut catalog = QCatalog::new();
    let mut disagreements = Vec::new();
    let n = rng.range(1, opts.max_zones.max(1));
    let mut id = 0u64;
    for _ in 0..n {
        let apex_text: &str = APEXES[rng.below(APEXES.len())];
        let apex = flip_case(rng, &RName::simple(apex_text));
        let class = *rng.pick(&opts.classes);
        if reference.get(&apex, class).is_some() {
            continue;
        }
        id += 1;
        let state = if opts.allow_unloaded { rng.below(8) } else { 7 };
        match state {
            0 => {
                catalog.insert(Entry::NotYetLoaded(qname(&apex), Class::from(class), id));
                reference.entries.push(RefEntry { name: apex, class, state: EntryState::NotYetLoaded, id });
            }
            1 => {
                catalog.insert(Entry::FailedToLoad(qname(&apex), Class::from(class), id));
                reference.entries.push(RefEntry { name: apex, class, state: EntryState::FailedToLoad, id });
            }
            _ => {
                let recs = gen_zone_records(rng, &apex, class, &opts.zone);
                let (rz, qz, d) = build_zone(&apex, class, &recs);
                disagreements.extend(d);
                catalog.insert(Entry::Loaded(Arc::new(qz), id));
                reference.entries.push(RefEntry { name: apex, class, state: EntryState::Loaded(rz), id });
            }
        }
    }
    // Entries that come and go: a catalog that was edited (reloads remove
    // zones) must select zones exactly like one that was only ever inserted
    // into. Decoys sit below, above and beside the entries that stay.
    if rng.chance(1, 2) {
        let mut decoys: Vec<(RName, u16)> = Vec::new();
        for _ in 0..rng.range(1, 4) {
            let (base, class) = match rng.below(4) {
                0 => (RName::simple(APEXES[rng.below(APEXES.len())]), *rng.pick(&opts.classes)),
                _ if !reference.entries.is_empty() => {
                    let e = rng.pick(&reference.entries);
                    (e.name.clone(), e.class)
                }
                _ => (RName::root(), *rng.pick(&opts.classes)),
            };
            let name = match rng.below(4) {
                0 => base.parent(1).unwrap_or(base.clone()),
                1 => base.child(b"gone"),
                2 => base.child(b"gone").child(b"deep"),
                _ => base.clone(),
            };
            if !name.is_valid() || reference.get(&name, class).is_some() || decoys.iter().any(|(n, c)| n.eq_ci(&name) && *c == class) {
                continue;
            }
            id += 1;
            catalog.insert(Entry::FailedToLoad(qname(&name), Class::from(class), id));
            decoys.push((name, class));
        }
        rng.shuffle(&mut decoys);
        for (name, class) in decoys {
            catalog.remove(&qname(&name), Class::from(class));
        }
    }
    BuiltCatalog { reference, catalog, disagreements }
}

/// Names worth querying: every owner and RDATA target of every zone,
/// their parents and children, with random case.
pub fn interesting_names(rng: &mut Rng, cat: &RefCatalog) -> Vec<RName> {
    let mut out: Vec<RName> = Vec::new();
    for e in &cat.entries {
        out.push(e.name.clone());
        if let EntryState::Loaded(z) = &e.state {
            for (rec, _) in &z.offered {
                out.push(rec.owner.clone());
                if let Some((_, names, _)) = rr::split_names(rec.class, rec.rtype, &rec.rdata) {
                    out.extend(names);
                }
            }
        }
    }
    // wire-confusable names: one label whose octets spell the wire form of a catalog entry's
    // name (so an octet-wise suffix comparison of wire forms sees an entry where there is none)
    for e in &cat.entries {
        if e.name.0.is_empty() {
            continue;
        }
        let mut label: Vec<u8> = vec![b'x'];
        for l in &e.name.0 {
            label.push(l.len() as u8);
            label.extend_from_slice(l);
        }
        if label.len() <= 63 {
            let alone = RName(vec![label.clone()]);
            if alone.is_valid() {
                out.push(alone);
            }
            // only the first label spelled inside, the rest real: x\008quandary.test.
            let mut first: Vec<u8> = vec![b'x', e.name.0[0].len() as u8];
            first.extend_from_slice(&e.name.0[0]);
            let mut v = vec![first];
            v.extend(e.name.0[1..].iter().cloned());
            let partly = RName(v);
            if partly.is_valid() {
                out.push(partly);
            }
        }
    }
    let base = out.clone();
    for n in base {
        if let Some(p) = n.parent(1) {
            out.push(p);
        }
        for l in [&b"a"[..], b"zz", b"*", b"b"] {
            let c = n.child(l);
            if c.is_valid() {
                if rng.chance(1, 3) {
                    let cc = c.child(*rng.pick(&LABELS));
                    if cc.is_valid() {
                        out.push(cc);
                    }
                }
                out.push(c);
            }
        }
    }
    out.push(RName::simple("nowhere.invalid."));
    out.push(RName::root());
    out.sort();
    out.dedup();
    out
}

pub const QTYPES: [u16; 16] = [T_A, T_AAAA, T_NS, T_CNAME, T_SOA, T_MX, T_TXT, T_SRV, T_ANY, 99, T_PTR, T_MB, T_A, T_A, T_NS, T_MX];

pub fn random_case(rng: &mut Rng, n: &RName) -> RName {
    if rng.chance(1, 2) {
        flip_case(rng, n)
    } else {
        n.clone()
    }
}
