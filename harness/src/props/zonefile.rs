//! C23 (zone files parse to what they denote), C24 (parser totality,
//! only valid records), C25 ($INCLUDE = textual inclusion with origin
//! scoping). Oracle F: an independent pretty-printer that renders a
//! record list in RFC 1035 §5 master-file syntax with random
//! presentation choices; the expected parse is the generating list.

use std::io::Read;
use std::path::PathBuf;

use quandary::zone_file::{self, LineContent, Parser};

use crate::names::RName;
use crate::panicmon;
use crate::rdataref as rr;
use crate::report::{hex, Json, Report};
use crate::rng::Rng;
use crate::wire::*;
use crate::zonemodel::clamp_ttl;
use crate::Ctx;

#[derive(Clone, Debug, PartialEq, Eq)]
pub struct ZRec {
    pub owner: RName,
    pub ttl: u32,
    pub class: u16,
    pub rtype: u16,
    pub rdata: Vec<u8>,
}

#[derive(Clone, Debug, PartialEq, Eq)]
pub struct Expected {
    pub line: usize,
    pub rec: ZRec,
}

/// Presentation state (what an omitted field would default to).
#[derive(Clone, Debug, Default)]
pub struct PState {
    pub origin: Option<RName>,
    pub default_ttl: Option<u32>,
    pub prev_ttl: Option<u32>,
    pub prev_class: Option<u16>,
    pub prev_owner: Option<RName>,
}

pub struct Printer<'a> {
    pub rng: &'a mut Rng,
    pub out: Vec<u8>,
    pub line: usize,
    pub st: PState,
    pub crlf: bool,
    /// allow `\#` hex split over several words (RFC 3597 §5)
    pub multiword_hex: bool,
    pub features: Vec<&'static str>,
}

fn class_text(rng: &mut Rng, class: u16) -> String {
    let base = match class {
        C_IN if rng.chance(4, 5) => "IN".to_string(),
        C_CH if rng.chance(4, 5) => "CH".to_string(),
        C_HS if rng.chance(4, 5) => "HS".to_string(),
        c => format!("CLASS{}", c),
    };
    random_case(rng, &base)
}

fn type_text(rng: &mut Rng, rtype: u16) -> String {
    let m = match rtype {
        T_A => "A",
        T_NS => "NS",
        T_MD => "MD",
        T_MF => "MF",
        T_CNAME => "CNAME",
        T_SOA => "SOA",
        T_MB => "MB",
        T_MG => "MG",
        T_MR => "MR",
        T_WKS => "WKS",
        T_PTR => "PTR",
        T_HINFO => "HINFO",
        T_MINFO => "MINFO",
        T_MX => "MX",
        T_TXT => "TXT",
        T_AAAA => "AAAA",
        T_SRV => "SRV",
        _ => "",
    };
    if m.is_empty() || rng.chance(1, 6) {
        random_case(rng, &format!("TYPE{}", rtype))
    } else {
        random_case(rng, m)
    }
}

fn random_case(rng: &mut Rng, s: &str) -> String {
    match rng.below(4) {
        0 => s.to_lowercase(),
        1 => s.chars().map(|c| if rng.bool() { c.to_ascii_lowercase() } else { c.to_ascii_uppercase() }).collect(),
        _ => s.to_string(),
    }
}

impl<'a> Printer<'a> {
    pub fn new(rng: &'a mut Rng) -> Self {
        let crlf = rng.chance(1, 4);
        let multiword_hex = true;
        Printer { rng, out: Vec::new(), line: 1, st: PState::default(), crlf, multiword_hex, features: Vec::new() }
    }

    fn newline(&mut self) {
        if self.crlf {
            self.out.push(b'\r');
        }
        self.out.push(b'\n');
        self.line += 1;
    }

    fn ws(&mut self) {
        let n = self.rng.range(1, 3);
        for _ in 0..n {
            let c = if self.rng.chance(1, 4) { b'\t' } else { b' ' };
            self.out.push(c);
        }
    }

    /// Separator between two fields. Inside parentheses it may contain
    /// line breaks and comments.
    fn sep(&mut self, in_parens: bool) {
        if in_parens && self.rng.chance(1, 3) {
            if self.rng.chance(1, 2) {
                self.ws();
                self.comment();
            } else if self.rng.bool() {
                self.ws();
            }
            self.newline();
            if self.rng.chance(3, 4) {
                self.ws();
            }
            self.features.push("line-break-in-parens");
        } else {
            self.ws();
        }
    }

    fn comment(&mut self) {
        self.out.push(b';');
        let n = self.rng.below(12);
        for _ in 0..n {
            let c = *self.rng.pick(b" ab;()\"\\$@.09\t");
            self.out.push(c);
        }
        self.features.push("comment");
    }

    fn label_text(&mut self, label: &[u8], first_of_line: bool) -> Vec<u8> {
        let mut s = Vec::new();
        for (i, &c) in label.iter().enumerate() {
            let special = matches!(c, b'.' | b'\\' | b'"' | b';' | b'(' | b')' | b' ' | b'\t');
            let at_alone = c == b'@' && label.len() == 1;
            let dollar_first = c == b'$' && i == 0 && first_of_line;
            if c < 0x21 || c > 0x7e {
                s.extend(format!("\\{:03}", c).bytes());
                self.features.push("escape-ddd");
            } else if special || at_alone || dollar_first {
                if self.rng.bool() && c != b' ' && c != b'\t' {
                    s.push(b'\\');
                    s.push(c);
                    self.features.push("escape-char");
                } else {
                    s.extend(format!("\\{:03}", c).bytes());
                    self.features.push("escape-ddd");
                }
            } else if self.rng.chance(1, 40) {
                s.extend(format!("\\{:03}", c).bytes());
                self.features.push("escape-ddd");
            } else {
                s.push(c);
            }
        }
        s
    }

    /// Renders a name: absolute, relative to the origin, or `@`.
    fn name_text(&mut self, n: &RName, first_of_line: bool) -> Vec<u8> {
        if n.0.is_empty() {
            return b".".to_vec();
        }
        if let Some(origin) = self.st.origin.clone() {
            if n == &origin && self.rng.chance(2, 3) {
                self.features.push("at-sign");
                return b"@".to_vec();
            }
            // relative form requires an exact (case-sensitive) suffix so the parse gives back the same octets
            if n.0.len() > origin.0.len() && n.0[n.0.len() - origin.0.len()..] == origin.0[..] && self.rng.chance(2, 3) {
                let rel = &n.0[..n.0.len() - origin.0.len()];
                let mut s = Vec::new();
                for (i, l) in rel.iter().enumerate() {
                    if i > 0 {
                        s.push(b'.');
                    }
                    let t = self.label_text(l, first_of_line && i == 0);
                    s.extend(t);
                }
                self.features.push("relative-name");
                return s;
            }
        }
        let mut s = Vec::new();
        for (i, l) in n.0.iter().enumerate() {
            let t = self.label_text(l, first_of_line && i == 0);
            s.extend(t);
            s.push(b'.');
        }
        s
    }

    fn char_string_text(&mut self, cs: &[u8]) -> Vec<u8> {
        let needs_quotes = cs.is_empty() || cs.iter().any(|c| matches!(c, b' ' | b'\t' | b';' | b'(' | b')'));
        let quoted = needs_quotes || self.rng.bool() || cs[0] == b'"';
        let mut s = Vec::new();
        if quoted {
            s.push(b'"');
            self.features.push("quoted-string");
        } else {
            self.features.push("unquoted-string");
        }
        for &c in cs {
            if c == b'"' || c == b'\\' {
                s.push(b'\\');
                s.push(c);
            } else if c < 0x20 || c > 0x7e {
                s.extend(format!("\\{:03}", c).bytes());
            } else if !quoted && matches!(c, b' ' | b'\t' | b';' | b'(' | b')') {
                s.extend(format!("\\{:03}", c).bytes());
            } else {
                s.push(c);
            }
        }
        if quoted {
            s.push(b'"');
        }
        s
    }

    fn generic_rdata(&mut self, rdata: &[u8], in_parens: bool) {
        self.out.extend_from_slice(b"\\#");
        self.sep(in_parens);
        self.out.extend(format!("{}", rdata.len()).bytes());
        self.features.push("generic-rdata");
        if rdata.is_empty() {
            return;
        }
        self.sep(in_parens);
        let words = if self.multiword_hex && rdata.len() > 1 && self.rng.chance(1, 3) { self.rng.range(2, rdata.len().min(4)) } else { 1 };
        if words > 1 {
            self.features.push("generic-rdata-multiword");
        }
        let per = (rdata.len() + words - 1) / words;
        for (i, chunk) in rdata.chunks(per).enumerate() {
            if i > 0 {
                self.sep(in_parens);
            }
            for b in chunk {
                let h = if self.rng.bool() { format!("{:02x}", b) } else { format!("{:02X}", b) };
                self.out.extend(h.bytes());
            }
        }
    }

    /// Renders RDATA in its type-specific presentation form. Returns
    /// false if this (class, type) has no such form.
    fn native_rdata(&mut self, class: u16, rtype: u16, rdata: &[u8], in_parens: bool) -> bool {
        let split = rr::split_names(class, rtype, rdata);
        match rtype {
            T_NS | T_MD | T_MF | T_CNAME | T_MB | T_MG | T_MR | T_PTR => {
                let (_, names, _) = split.unwrap();
                let t = self.name_text(&names[0], false);
                self.out.extend(t);
            }
            T_A if class == C_IN => {
                let s = format!("{}.{}.{}.{}", rdata[0], rdata[1], rdata[2], rdata[3]);
                self.out.extend(s.bytes());
            }
            T_A if class == C_CH => {
                let (_, names, tail) = split.unwrap();
                let t = self.name_text(&names[0], false);
                self.out.extend(t);
                self.sep(in_parens);
                let addr = u16::from_be_bytes([tail[0], tail[1]]);
                self.out.extend(format!("{:o}", addr).bytes());
            }
            T_SOA => {
                let (_, names, tail) = split.unwrap();
                for n in &names {
                    let t = self.name_text(n, false);
                    self.out.extend(t);
                    self.sep(in_parens);
                }
                for i in 0..5 {
                    let v = u32::from_be_bytes([tail[4 * i], tail[4 * i + 1], tail[4 * i + 2], tail[4 * i + 3]]);
                    self.out.extend(format!("{}", v).bytes());
                    if i < 4 {
                        self.sep(in_parens);
                    }
                }
            }
            T_MINFO => {
                let (_, names, _) = split.unwrap();
                let t = self.name_text(&names[0], false);
                self.out.extend(t);
                self.sep(in_parens);
                let t = self.name_text(&names[1], false);
                self.out.extend(t);
            }
            T_MX => {
                let (p, names, _) = split.unwrap();
                self.out.extend(format!("{}", u16::from_be_bytes([p[0], p[1]])).bytes());
                self.sep(in_parens);
                let t = self.name_text(&names[0], false);
                self.out.extend(t);
            }
            T_SRV if class == C_IN => {
                let (p, names, _) = split.unwrap();
                for i in 0..3 {
                    self.out.extend(format!("{}", u16::from_be_bytes([p[2 * i], p[2 * i + 1]])).bytes());
                    self.sep(in_parens);
                }
                let t = self.name_text(&names[0], false);
                self.out.extend(t);
            }
            T_AAAA if class == C_IN => {
                let groups: Vec<u16> = (0..8).map(|i| u16::from_be_bytes([rdata[2 * i], rdata[2 * i + 1]])).collect();
                let s = if self.rng.bool() {
                    groups.iter().map(|g| if self.rng.bool() { format!("{:x}", g) } else { format!("{:04X}", g) }).collect::<Vec<_>>().join(":")
                } else {
                    let mut a = [0u8; 16];
                    a.copy_from_slice(rdata);
                    std::net::Ipv6Addr::from(a).to_string()
                };
                self.out.extend(s.bytes());
            }
            T_HINFO | T_TXT => {
                let mut b = rdata;
                let mut first = true;
                while !b.is_empty() {
                    let len = b[0] as usize;
                    if !first {
                        self.sep(in_parens);
                    }
                    let t = self.char_string_text(&b[1..1 + len]);
                    self.out.extend(t);
                    b = &b[1 + len..];
                    first = false;
                }
            }
            T_WKS if class == C_IN => {
                let s = format!("{}.{}.{}.{}", rdata[0], rdata[1], rdata[2], rdata[3]);
                self.out.extend(s.bytes());
                self.sep(in_parens);
                let proto = rdata[4];
                let ptxt = match proto {
                    6 if self.rng.bool() => random_case(self.rng, "TCP"),
                    17 if self.rng.bool() => random_case(self.rng, "UDP"),
                    p => format!("{}", p),
                };
                self.out.extend(ptxt.bytes());
                // RFC 1035 §3.4.2: "the first bit corresponds to port 0" (most significant bit first)
                for (i, byte) in rdata[5..].iter().enumerate() {
                    for bit in 0..8 {
                        if byte & (0x80 >> bit) != 0 {
                            self.sep(in_parens);
                            self.out.extend(format!("{}", i * 8 + bit).bytes());
                        }
                    }
                }
                self.features.push("wks");
            }
            _ => return false,
        }
        true
    }

    pub fn directive_origin(&mut self, origin: &RName) {
        let d = random_case(self.rng, "$ORIGIN");
        self.out.extend(d.bytes());
        self.ws();
        // $ORIGIN may itself be relative to the current origin
        let t = self.name_text(origin, false);
        self.out.extend(t);
        self.eol();
        self.st.origin = Some(origin.clone());
        self.features.push("$ORIGIN");
    }

    pub fn directive_ttl(&mut self, ttl: u32) {
        let d = random_case(self.rng, "$TTL");
        self.out.extend(d.bytes());
        self.ws();
        self.out.extend(format!("{}", ttl).bytes());
        self.eol();
        self.st.default_ttl = Some(clamp_ttl(ttl));
        self.features.push("$TTL");
    }

    fn eol(&mut self) {
        if self.rng.chance(1, 4) {
            self.ws();
        }
        if self.rng.chance(1, 5) {
            self.comment();
        }
        self.newline();
    }

    pub fn blank_or_comment_line(&mut self) {
        if self.rng.bool() {
            self.ws();
        }
        if self.rng.bool() {
            self.comment();
        }
        self.newline();
        self.features.push("blank-line");
    }

    /// Writes one record; returns the line it starts on.
    pub fn record(&mut self, rec: &ZRec) -> usize {
        let start_line = self.line;
        // owner
        let omit_owner = self.st.prev_owner.as_ref() == Some(&rec.owner) && self.rng.chance(1, 2);
        if omit_owner {
            self.ws();
            self.features.push("omitted-owner");
        } else {
            let t = self.name_text(&rec.owner, true);
            self.out.extend(t);
        }
        let mut in_parens = false;
        let paren_at = if self.rng.chance(1, 4) { self.rng.below(4) } else { 99 };
        let mut field = 0usize;
        macro_rules! sep {
            () => {{
                if field == paren_at && !in_parens {
                    self.ws();
                    self.out.push(b'(');
                    in_parens = true;
                    self.features.push("parentheses");
                    if self.rng.bool() {
                        self.sep(true);
                    }
                } else if !(omit_owner && field == 0) {
                    self.sep(in_parens);
                } else if in_parens {
                    self.sep(true);
                }
                field += 1;
            }};
        }
        // TTL and class
        let eff_default = self.st.default_ttl.or(self.st.prev_ttl);
        let can_omit_ttl = eff_default == Some(clamp_ttl(rec.ttl));
        let can_omit_class = self.st.prev_class == Some(rec.class);
        let omit_ttl = can_omit_ttl && self.rng.chance(1, 2);
        let omit_class = can_omit_class && self.rng.chance(1, 2);
        let ttl_first = self.rng.bool();
        let ttl_s = format!("{}", rec.ttl);
        let class_s = class_text(self.rng, rec.class);
        let mut parts: Vec<String> = Vec::new();
        if ttl_first {
            if !omit_ttl {
                parts.push(ttl_s);
            }
            if !omit_class {
                parts.push(class_s);
            }
        } else {
            if !omit_class {
                parts.push(class_s);
            }
            if !omit_ttl {
                parts.push(ttl_s);
            }
        }
        if omit_ttl {
            self.features.push("omitted-ttl");
        }
        if omit_class {
            self.features.push("omitted-class");
        }
        if !ttl_first && !omit_ttl && !omit_class {
            self.features.push("class-before-ttl");
        }
        parts.push(type_text(self.rng, rec.rtype));
        for p in parts {
            sep!();
            self.out.extend(p.bytes());
        }
        sep!();
        // RDATA
        let use_generic = self.rng.chance(1, 8);
        let mark = self.out.len();
        if use_generic || !rr::valid(rec.class, rec.rtype, &rec.rdata) || !self.native_rdata(rec.class, rec.rtype, &rec.rdata, in_parens) {
            self.out.truncate(mark);
            self.generic_rdata(&rec.rdata.clone(), in_parens);
        }
        if in_parens {
            if self.rng.bool() {
                self.sep(true);
            }
            self.out.push(b')');
        }
        self.eol();
        self.st.prev_owner = Some(rec.owner.clone());
        self.st.prev_ttl = Some(clamp_ttl(rec.ttl));
        self.st.prev_class = Some(rec.class);
        start_line
    }
}

// ---------------------------------------------------------------------
// record generation
// ---------------------------------------------------------------------

const ZF_TYPES: [(u16, u16); 24] = [
    (C_IN, T_A), (C_IN, T_NS), (C_IN, T_MD), (C_IN, T_MF), (C_IN, T_CNAME), (C_IN, T_SOA), (C_IN, T_MB), (C_IN, T_MG), (C_IN, T_MR), (C_IN, T_WKS), (C_IN, T_PTR), (C_IN, T_HINFO),
    (C_IN, T_MINFO), (C_IN, T_MX), (C_IN, T_TXT), (C_IN, T_AAAA), (C_IN, T_SRV), (C_CH, T_A), (C_CH, T_TXT), (C_HS, T_A), (C_IN, 99), (65280, T_MX), (C_IN, 65280), (C_CH, T_NS),
];

fn zf_label(rng: &mut Rng) -> Vec<u8> {
    match rng.below(12) {
        0 => b"*".to_vec(),
        1 => b"@".to_vec(),
        2 => {
            let n = rng.range(1, 4);
            (0..n).map(|_| *rng.pick(b". \\\";()$@\t\n\x00\xff\x7f")).collect()
        }
        3 => vec![b'x'; 63],
        4 => b"IN".to_vec(),
        5 => b"300".to_vec(),
        _ => {
            let n = rng.range(1, 6);
            (0..n).map(|_| *rng.pick(b"abcXYZ019-_")).collect()
        }
    }
}

/// A name below `base` whose wire form is exactly `target` octets long (or one short of it
/// when that cannot be hit), made of labels of up to 63 octets.
fn name_of_len_below(rng: &mut Rng, base: &RName, target: usize) -> RName {
    let mut n = base.clone();
    loop {
        let room = target.saturating_sub(n.wire_len());
        if room < 2 {
            return n;
        }
        let len = if room - 1 > 63 {
            if room - 64 == 1 {
                62
            } else {
                63
            }
        } else {
            room - 1
        };
        let l: Vec<u8> = (0..len).map(|_| *rng.pick(b"mM")).collect();
        let c = n.child(&l);
        if !c.is_valid() {
            return n;
        }
        n = c;
    }
}

fn zf_name(rng: &mut Rng, origin: &RName) -> RName {
    if rng.chance(1, 25) {
        // right at the length limit, so that completing the relative spelling with the origin
        // reaches exactly 255 octets (or stays just below)
        let target = *rng.pick(&[255usize, 255, 254, 250]);
        return name_of_len_below(rng, origin, target);
    }
    let base = match rng.below(6) {
        0 => RName::simple("other.example."),
        1 => RName::root(),
        _ => origin.clone(),
    };
    let depth = rng.below(3);
    let mut n = base;
    for _ in 0..depth {
        let c = n.child(&zf_label(rng));
        if c.is_valid() {
            n = c;
        }
    }
    n
}

pub fn gen_records(rng: &mut Rng, origin: &RName, n: usize) -> Vec<ZRec> {
    let mut out: Vec<ZRec> = Vec::new();
    for _ in 0..n {
        let (class, rtype) = *rng.pick(&ZF_TYPES);
        let owner = if !out.is_empty() && rng.chance(1, 3) { out.last().unwrap().owner.clone() } else { zf_name(rng, origin) };
        let ttl = match rng.below(8) {
            0 => 0,
            1 => 0x7fff_ffff,
            2 => 0x8000_0000,
            3 => 0xffff_ffff,
            _ => *rng.pick(&[60u32, 300, 3600]),
        };
        let mut f = |r: &mut Rng| zf_name(r, origin);
        let mut rdata = rr::gen_valid(rng, class, rtype, &mut f);
        if rtype == T_WKS && class == C_IN {
            // canonical form: no trailing zero octets in the bitmap (the
            // presentation form is a port list)
            while rdata.len() > 5 && *rdata.last().unwrap() == 0 {
                rdata.pop();
            }
        }
        out.push(ZRec { owner, ttl, class, rtype, rdata });
    }
    out
}

/// Renders a whole file; returns (text, expected parse, features used).
pub fn render_file(rng: &mut Rng, recs: &[ZRec], initial: PState, origins: &[RName]) -> (Vec<u8>, Vec<Expected>, Vec<&'static str>, PState) {
    let mut p = Printer::new(rng);
    p.st = initial;
    let mut expected = Vec::new();
    if p.st.origin.is_none() || p.rng.chance(1, 3) {
        let o = p.rng.pick(origins).clone();
        // a first $ORIGIN must be absolute
        p.directive_origin(&o);
    }
    for rec in recs {
        match p.rng.below(12) {
            0 => {
                let o = p.rng.pick(origins).clone();
                p.directive_origin(&o);
            }
            1 => {
                let t = *p.rng.pick(&[0u32, 60, 300, 3600, 0x7fff_ffff]);
                p.directive_ttl(t);
            }
            2 => p.blank_or_comment_line(),
            _ => {}
        }
        let line = p.record(rec);
        expected.push(Expected { line, rec: ZRec { ttl: clamp_ttl(rec.ttl), ..rec.clone() } });
    }
    if p.rng.chance(1, 4) {
        // no newline at the very end
        while matches!(p.out.last(), Some(b'\n') | Some(b'\r')) {
            p.out.pop();
        }
    }
    let st = p.st.clone();
    (p.out, expected, p.features, st)
}

/// A reader that hands out 1-7 octets per call (stresses refill logic).
pub struct Dribble<'a> {
    pub data: &'a [u8],
    pub pos: usize,
    pub seed: u64,
}

impl<'a> Read for Dribble<'a> {
    fn read(&mut self, buf: &mut [u8]) -> std::io::Result<usize> {
        self.seed = self.seed.wrapping_mul(6364136223846793005).wrapping_add(1442695040888963407);
        let want = 1 + ((self.seed >> 33) % 7) as usize;
        let n = want.min(buf.len()).min(self.data.len() - self.pos);
        buf[..n].copy_from_slice(&self.data[self.pos..self.pos + n]);
        self.pos += n;
        Ok(n)
    }
}

#[derive(Debug)]
pub enum Parsed {
    Rec(usize, ZRec),
    Include(usize, Vec<u8>, Option<RName>),
    Err(String),
}

fn to_rname(n: &quandary::name::Name) -> RName {
    RName::from_wire_all(n.wire_repr()).unwrap()
}

/// Parses with quandary's stream parser; every item plus three extra
/// calls to next() after the end or an error.
pub fn parse_stream(text: &[u8], dribble: bool, seed: u64) -> (Vec<Parsed>, usize) {
    let mut out = Vec::new();
    let reader: Box<dyn Read> = if dribble { Box::new(Dribble { data: text, pos: 0, seed }) } else { Box::new(std::io::Cursor::new(text)) };
    let mut parser = Parser::new(reader);
    let mut after_end = 0;
    loop {
        match parser.next() {
            None => break,
            Some(Ok(line)) => match line.content {
                LineContent::Record(r) => out.push(Parsed::Rec(line.number, ZRec { owner: to_rname(&r.owner), ttl: u32::from(r.ttl), class: u16::from(r.class), rtype: u16::from(r.rr_type), rdata: r.rdata.octets().to_vec() })),
                LineContent::Include(i) => out.push(Parsed::Include(line.number, i.path.clone(), i.origin.as_ref().map(|o| to_rname(o)))),
            },
            Some(Err(e)) => {
                out.push(Parsed::Err(format!("{}", e)));
                break;
            }
        }
        if out.len() > 100_000 {
            break;
        }
    }
    for _ in 0..3 {
        if parser.next().is_some() {
            after_end += 1;
        }
    }
    (out, after_end)
}

/// The same input through `Parser::records_only()`.
pub fn parse_records_only(text: &[u8], dribble: bool, seed: u64) -> (Vec<Parsed>, usize) {
    let mut out = Vec::new();
    let reader: Box<dyn Read> = if dribble { Box::new(Dribble { data: text, pos: 0, seed }) } else { Box::new(std::io::Cursor::new(text)) };
    let mut parser = Parser::new(reader).records_only();
    let mut after_end = 0;
    loop {
        match parser.next() {
            None => break,
            Some(Ok(line)) => {
                let r = line.record;
                out.push(Parsed::Rec(line.number, ZRec { owner: to_rname(&r.owner), ttl: u32::from(r.ttl), class: u16::from(r.class), rtype: u16::from(r.rr_type), rdata: r.rdata.octets().to_vec() }));
            }
            Some(Err(e)) => {
                out.push(Parsed::Err(format!("{}", e)));
                break;
            }
        }
        if out.len() > 100_000 {
            break;
        }
    }
    for _ in 0..3 {
        if parser.next().is_some() {
            after_end += 1;
        }
    }
    (out, after_end)
}

fn bit_reverse(b: u8) -> u8 {
    b.reverse_bits()
}

pub fn run_c23(ctx: &Ctx, rep: &mut Report) {
    let n = if ctx.is_miri() { ctx.cases(4, 160) } else { ctx.cases(24_000, 250_000) };
    let origins = [RName::simple("example.test."), RName::simple("sub.example.test."), RName::root(), RName::simple("Other.Example.")];
    for case in ctx.case_range(n) {
        rep.current_case = case;
        let mut rng = ctx.rng("c23", case);
        let n_recs = rng.range(1, 8);
        let origin0 = rng.pick(&origins).clone();
        let recs = gen_records(&mut rng, &origin0, n_recs);
        let (text, expected, features, _) = render_file(&mut rng, &recs, PState::default(), &origins);
        let dribble = rng.bool();
        let seed = rng.next_u64();
        let parsed = panicmon::catch(|| parse_stream(&text, dribble, seed));
        rep.eval();
        let w = || Json::obj(vec![("zone_file", Json::s(String::from_utf8_lossy(&text).to_string())), ("zone_file_hex", Json::hex(&text))]);
        let (items, _) = match parsed {
            Err(p) => {
                rep.violation(format!("c23:{}", p.signature()), format!("parser panicked at {}: {}", p.location, p.message), w());
                continue;
            }
            Ok(x) => x,
        };
        let mut ok = true;
        for (i, exp) in expected.iter().enumerate() {
            match items.get(i) {
                Some(Parsed::Rec(line, rec)) => {
                    if *rec != exp.rec {
                        // identify the WKS bit-order finding precisely
                        let wks_bit_order = exp.rec.rtype == T_WKS
                            && exp.rec.class == C_IN
                            && rec.owner == exp.rec.owner
                            && rec.ttl == exp.rec.ttl
                            && rec.rdata.len() == exp.rec.rdata.len()
                            && rec.rdata[..5] == exp.rec.rdata[..5]
                            && rec.rdata[5..].iter().zip(exp.rec.rdata[5..].iter()).all(|(a, b)| *a == bit_reverse(*b));
                        let sig = if wks_bit_order { "c23:wks-bitmap-bit-order".to_string() } else { format!("c23:record-differs:type{}", exp.rec.rtype) };
                        rep.violation(sig, format!("record {} (line {}): parsed {:?}, the file denotes {:?}", i, exp.line, rec, exp.rec), w());
                        ok = false;
                        break;
                    }
                    if *line != exp.line {
                        rep.violation("c23:line-number", format!("record {} reported at line {}, it starts on line {}", i, line, exp.line), w());
                        ok = false;
                        break;
                    }
                }
                Some(Parsed::Err(e)) => {
                    let sig = if e.contains("hexadecimal") || e.contains("hex") { "c23:rejected:generic-rdata-hex".to_string() } else { format!("c23:rejected:type{}", exp.rec.rtype) };
                    rep.violation(sig, format!("valid zone file rejected at record {} (line {}): {}", i, exp.line, e), w());
                    ok = false;
                    break;
                }
                Some(other) => {
                    rep.violation("c23:unexpected-item", format!("record {}: got {:?}", i, other), w());
                    ok = false;
                    break;
                }
                None => {
                    rep.violation("c23:missing-record", format!("only {} of {} records parsed", items.len(), expected.len()), w());
                    ok = false;
                    break;
                }
            }
        }
        if ok && items.len() != expected.len() {
            rep.violation("c23:extra-items", format!("{} items parsed, {} records in the file: {:?}", items.len(), expected.len(), items.last()), w());
            ok = false;
        }
        if ok {
            let mut f: Vec<&str> = features.clone();
            f.sort();
            f.dedup();
            for feat in &f {
                rep.hist(&format!("feature:{}", feat));
            }
            rep.class(&f.join("+"));
        }
        if case % 2000 == 0 {
            rep.sample(|| w());
        }
    }
}

// ---------------------------------------------------------------------
// C24
// ---------------------------------------------------------------------

const SOUP: [&str; 40] = [
    "(", ")", ";", "\"", "\\", "@", "$", ".", "*", "\r\n", "\n", " ", "\t", "$ORIGIN", "$TTL", "$INCLUDE", "IN", "CH", "A", "NS", "SOA", "TXT", "MX", "NULL", "OPT", "TSIG", "TYPE10", "TYPE41", "CLASS3", "\\#", "0", "4", "300",
    "1.2.3.4", "::1", "example.", "www", "\\000", "\\300", "ab",
];

pub fn run_c24(ctx: &Ctx, rep: &mut Report) {
    let n = if ctx.is_miri() { ctx.cases(4, 160) } else { ctx.cases(60_000, 600_000) };
    let origins = [RName::simple("example.test."), RName::root()];
    for case in ctx.case_range(n) {
        rep.current_case = case;
        let mut rng = ctx.rng("c24", case);
        let (text, how): (Vec<u8>, &str) = match rng.below(6) {
            0 => {
                let len = rng.below(120);
                (rng.bytes(len), "random")
            }
            5 => {
                // relative names that, completed with the origin, sit around the limits of 255
                // octets and 128 labels (just inside: a record; beyond: an error, never a panic)
                let many_labels = rng.bool();
                let part = |rng: &mut Rng, octets: usize| -> String {
                    let mut s = String::new();
                    let mut left = octets;
                    while left >= 2 {
                        let len = if many_labels { 1 } else { (left - 1).min(63) };
                        for _ in 0..len {
                            s.push(*rng.pick(b"rR") as char);
                        }
                        s.push('.');
                        left -= 1 + len;
                    }
                    s
                };
                let origin_len = *rng.pick(&[2usize, 9, 64, 128, 129, 193, 250, 254]);
                let total = rng.range(250, 262);
                let rel_len = total.saturating_sub(origin_len + 1).max(2);
                let origin = part(&mut rng, origin_len);
                let mut rel = part(&mut rng, rel_len);
                rel.pop(); // relative: no trailing dot
                let t = match rng.below(4) {
                    0 => format!("$ORIGIN {}\n{} 60 IN A 192.0.2.1\n", origin, rel),
                    1 => format!("$ORIGIN {}\n@ 60 IN NS {}\n", origin, rel),
                    2 => format!("$ORIGIN {}\n@ 60 IN MX 10 {}\nnext 60 IN A 192.0.2.2\n", origin, rel),
                    _ => format!("$ORIGIN {}\n$ORIGIN {}\n@ 60 IN A 192.0.2.1\n", origin, rel),
                };
                (t.into_bytes(), "long-relative")
            }
            4 => {
                // syntactically fine files whose RDATA is (often) invalid for its
                // type and therefore written in RFC 3597 generic form
                let nr = rng.range(1, 4);
                let mut recs = gen_records(&mut rng, &origins[0], nr);
                for r in recs.iter_mut() {
                    if rng.chance(2, 3) {
                        r.rdata = rr::mutate(&mut rng, &r.rdata);
                        if rng.chance(1, 3) {
                            r.rdata = rr::mutate(&mut rng, &r.rdata);
                        }
                    }
                }
                let (t, _, _, _) = render_file(&mut rng, &recs, PState::default(), &origins);
                (t, "generic-near-valid")
            }
            1 => {
                let k = rng.below(30);
                let mut t = Vec::new();
                for _ in 0..k {
                    t.extend(SOUP[rng.below(SOUP.len())].bytes());
                    if rng.chance(2, 3) {
                        t.push(b' ');
                    }
                }
                (t, "soup")
            }
            _ => {
                let nr = rng.range(1, 5);
                let recs = gen_records(&mut rng, &origins[0], nr);
                let (mut t, _, _, _) = render_file(&mut rng, &recs, PState::default(), &origins);
                let n_mut = rng.range(1, 3);
                for _ in 0..n_mut {
                    if t.is_empty() {
                        break;
                    }
                    let i = rng.below(t.len());
                    match rng.below(5) {
                        0 => t.truncate(i),
                        1 => {
                            t.remove(i);
                        }
                        2 => t.insert(i, *rng.pick(b"()\";\\ \n$@.0aA\xff\x00")),
                        3 => t[i] = *rng.pick(b"()\";\\ \n$@.0aA\xff\x00"),
                        _ => {
                            // replace a type mnemonic by a forbidden one
                            let s = String::from_utf8_lossy(&t).to_string();
                            let s = s.replacen(" A ", *rng.pick(&[" NULL ", " OPT ", " TSIG ", " TYPE10 ", " TYPE41 ", " TYPE250 "]), 1);
                            t = s.into_bytes();
                        }
                    }
                }
                (t, "mutated")
            }
        };
        // sometimes an $INCLUDE directive at a line boundary, with more lines after it
        let (text, how) = if rng.chance(1, 6) {
            let mut t = text;
            let starts: Vec<usize> = std::iter::once(0).chain(t.iter().enumerate().filter(|(_, c)| **c == b'\n').map(|(i, _)| i + 1)).collect();
            let at = *rng.pick(&starts);
            let line: &[u8] = *rng.pick(&[&b"$INCLUDE other.zone\n"[..], b"$INCLUDE sub/dir.zone example.test. ; comment\n", b"$include \"quoted path\" Origin.Example.\n", b"$INCLUDE\n", b"$INCLUDE a b c\n"]);
            t.splice(at..at, line.iter().copied());
            (t, if how == "mutated" { "mutated+include" } else { "include" })
        } else {
            (text, how)
        };
        let dribble = rng.bool();
        let seed = rng.next_u64();
        let parsed = panicmon::catch(|| parse_stream(&text, dribble, seed));
        rep.eval();
        let w = || Json::obj(vec![("input_hex", Json::hex(&text)), ("input", Json::s(String::from_utf8_lossy(&text).to_string()))]);
        // the records-only view of the same input: the same records up to the first $INCLUDE
        // or error, then exactly one error, then nothing
        if let Ok((items, _)) = &parsed {
            match panicmon::catch(|| parse_records_only(&text, dribble, seed)) {
                Err(p) => rep.violation(format!("c24:records_only:{}", p.signature()), format!("records_only parser panicked at {}: {}", p.location, p.message), w()),
                Ok((ro, after_end)) => {
                    if after_end > 0 {
                        rep.violation("c24:records_only:yields-after-end", "records_only(): next() returned an item after the iterator had ended or failed".to_string(), w());
                    }
                    let mut expect: Vec<Option<(usize, &ZRec)>> = Vec::new();
                    for it in items.iter() {
                        match it {
                            Parsed::Rec(n, r) => expect.push(Some((*n, r))),
                            _ => {
                                expect.push(None); // an error here ($INCLUDE is not supported, or the parser's own)
                                break;
                            }
                        }
                    }
                    let same = ro.len() == expect.len()
                        && ro.iter().zip(expect.iter()).all(|(got, want)| match (got, want) {
                            (Parsed::Rec(n, r), Some((wn, wr))) => n == wn && r == *wr,
                            (Parsed::Err(_), None) => true,
                            _ => false,
                        });
                    if !same {
                        rep.violation("c24:records_only:differs", format!("records_only() yields {} items, the plain parser implies {} (records up to the first $INCLUDE or error, then one error)", ro.len(), expect.len()), w());
                    }
                    rep.hist(if ro.iter().any(|i| matches!(i, Parsed::Err(_))) { "records_only:error" } else { "records_only:clean" });
                }
            }
        }
        match parsed {
            Err(p) => rep.violation(format!("c24:{}", p.signature()), format!("parser panicked at {}: {}", p.location, p.message), w()),
            Ok((items, after_end)) => {
                if after_end > 0 {
                    rep.violation("c24:yields-after-end", "next() returned an item after the iterator had ended or failed".to_string(), w());
                }
                let mut n_rec = 0;
                for (i, it) in items.iter().enumerate() {
                    match it {
                        Parsed::Rec(_, r) => {
                            n_rec += 1;
                            if matches!(r.rtype, T_NULL | T_OPT | T_TSIG) {
                                rep.violation(format!("c24:forbidden-type:{}", r.rtype), format!("record of type {} yielded", r.rtype), w());
                            }
                            if !rr::valid(r.class, r.rtype, &r.rdata) {
                                rep.violation(format!("c24:invalid-rdata:type{}", r.rtype), format!("record with RDATA {} that is not valid for CLASS{} TYPE{}", hex(&r.rdata), r.class, r.rtype), w());
                            }
                            if !r.owner.is_valid() {
                                rep.violation("c24:invalid-owner", "record with an invalid owner name".to_string(), w());
                            }
                        }
                        Parsed::Err(_) => {
                            if i != items.len() - 1 {
                                rep.violation("c24:continues-after-error", "items follow an error".to_string(), w());
                            }
                        }
                        Parsed::Include(..) => {}
                    }
                }
                let ended_in_error = matches!(items.last(), Some(Parsed::Err(_)));
                rep.class(&format!("{}:recs{}:err{}", how, (n_rec as usize).min(5), ended_in_error));
                rep.hist(&format!("{}:{}", how, if ended_in_error { "error" } else { "clean" }));
            }
        }
        if case % 5000 == 0 {
            rep.sample(|| w());
        }
    }
}

// ---------------------------------------------------------------------
// C25
// ---------------------------------------------------------------------

struct FileNode {
    rel_path: String,
    /// items in order: records, or includes of other nodes
    items: Vec<Item>,
}

enum Item {
    Rec(ZRec),
    Include { child: usize, origin: Option<RName>, relative_spelling: String },
}

/// On-disk path of a file of the tree: a '~' in the relative path stands for the octet 0xF6, which
/// makes the file name invalid UTF-8 (Unix file names are arbitrary octets, and the $INCLUDE path
/// grammar can spell any octet as \DDD).
fn disk_path(dir: &std::path::Path, rel: &str) -> PathBuf {
    use std::os::unix::ffi::OsStrExt;
    let bytes: Vec<u8> = rel.bytes().map(|b| if b == b'~' { 0xf6 } else { b }).collect();
    dir.join(std::ffi::OsStr::from_bytes(&bytes))
}

pub fn run_c25(ctx: &Ctx, rep: &mut Report) {
    let n = ctx.cases(16_000, 160_000);
    let origins = [RName::simple("example.test."), RName::simple("sub.example.test."), RName::simple("inc.test."), RName::root()];
    let base = PathBuf::from(&ctx.workdir).join("c25");
    let home = std::env::current_dir().ok();
    for case in ctx.case_range(n) {
        rep.current_case = case;
        // (half of the cases change into the tree's directory to open the root file by a relative path)
        if let Some(h) = &home {
            let _ = std::env::set_current_dir(h);
        }
        let mut rng = ctx.rng("c25", case);
        let dir = base.join(format!("case{}", case % 8));
        let _ = std::fs::remove_dir_all(&dir);
        if std::fs::create_dir_all(dir.join("sub/deeper")).is_err() || std::fs::create_dir_all(dir.join("other")).is_err() {
            rep.inconclusive("cannot create the work directory for zone-file trees");
            return;
        }
        // build a tree of files: node 0 is the root file
        let n_files = rng.range(1, 6);
        let dirs = ["", "sub/", "sub/deeper/", "other/"];
        let mut nodes: Vec<FileNode> = (0..n_files).map(|i| FileNode { rel_path: format!("{}{}{}.zone", dirs[rng.below(dirs.len())], if i > 0 && rng.chance(1, 6) { "~" } else { "f" }, i), items: Vec::new() }).collect();
        // each file i > 0 is included exactly once by some file j < i (a tree => depth well defined)
        let mut parent = vec![0usize; n_files];
        for i in 1..n_files {
            parent[i] = rng.below(i);
        }
        let mut depth_of = vec![0usize; n_files];
        for i in 1..n_files {
            depth_of[i] = depth_of[parent[i]] + 1;
        }
        let max_depth_needed = *depth_of.iter().max().unwrap();
        for i in 0..n_files {
            let n_recs = rng.range(1, 4);
            let recs = gen_records(&mut rng, &origins[0], n_recs);
            let children: Vec<usize> = (1..n_files).filter(|c| parent[*c] == i).collect();
            let mut items: Vec<Item> = recs.into_iter().map(Item::Rec).collect();
            for c in children {
                let at = rng.below(items.len() + 1);
                let origin = if rng.bool() { Some(rng.pick(&origins).clone()) } else { None };
                // path relative to the including file's directory
                let from_dir = std::path::Path::new(&nodes[i].rel_path).parent().map(|p| p.to_path_buf()).unwrap_or_default();
                let ups = from_dir.components().count();
                let mut spelled = String::new();
                for _ in 0..ups {
                    spelled.push_str("../");
                }
                spelled.push_str(&nodes[c].rel_path.replace('~', "\\246"));
                items.insert(at, Item::Include { child: c, origin, relative_spelling: spelled });
            }
            nodes[i].items = items;
        }
        let max_depth = if rng.chance(1, 3) { rng.below(5) } else { max_depth_needed + rng.below(2) };
        // render and expected parse in one traversal
        let mut texts: Vec<Vec<u8>> = vec![Vec::new(); n_files];
        let mut expected: Vec<(usize, Expected)> = Vec::new(); // (file index, record)
        let mut flat: Vec<u8> = Vec::new();
        let mut too_deep = false;
        fn visit(
            idx: usize,
            depth: usize,
            max_depth: usize,
            state: PState,
            nodes: &Vec<FileNode>,
            rng: &mut Rng,
            texts: &mut Vec<Vec<u8>>,
            expected: &mut Vec<(usize, Expected)>,
            flat: &mut Vec<u8>,
            too_deep: &mut bool,
            origins: &[RName],
            no_origin_root: bool,
            trap: &mut bool,
        ) -> PState {
            let mut p = Printer::new(rng);
            p.st = state;
            // the root file may go without any $ORIGIN (absolute names only); every other file
            // that starts without an origin sets one itself
            if p.st.origin.is_none() && !(idx == 0 && no_origin_root) {
                let o = origins[0].clone();
                p.directive_origin(&o);
            }
            let mut mark = 0usize;
            for item in &nodes[idx].items {
                match item {
                    Item::Rec(rec) => {
                        if p.rng.chance(1, 8) {
                            let t = *p.rng.pick(&[60u32, 300]);
                            p.directive_ttl(t);
                        }
                        let line = p.record(rec);
                        if !*too_deep {
                            expected.push((idx, Expected { line, rec: ZRec { ttl: clamp_ttl(rec.ttl), ..rec.clone() } }));
                        }
                    }
                    Item::Include { child, origin, relative_spelling } => {
                        let dir_start = p.out.len();
                        let d = random_case(p.rng, "$INCLUDE");
                        p.out.extend(d.bytes());
                        p.ws();
                        if p.rng.bool() {
                            p.out.push(b'"');
                            p.out.extend(relative_spelling.bytes());
                            p.out.push(b'"');
                        } else {
                            p.out.extend(relative_spelling.bytes());
                        }
                        if let Some(o) = origin {
                            p.ws();
                            let t = p.name_text(o, false);
                            p.out.extend(t);
                        }
                        p.eol();
                        // flush this file's text before the directive into the
                        // flattening; the directive line itself is replaced by
                        // the included text
                        flat.extend_from_slice(&p.out[mark..dir_start]);
                        flat.push(b'\n');
                        mark = p.out.len();
                        if depth >= max_depth {
                            *too_deep = true;
                        }
                        let saved_origin = p.st.origin.clone();
                        let mut child_state = p.st.clone();
                        if let Some(o) = origin {
                            child_state.origin = Some(o.clone());
                            flat.extend(format!("$ORIGIN {}\n", o.to_text()).bytes());
                        }
                        // the child's printer needs its own rng borrow: finish with ours first
                        let out_so_far = std::mem::take(&mut p.out);
                        let line_so_far = p.line;
                        let crlf = p.crlf;
                        let feats = std::mem::take(&mut p.features);
                        let rng_ref: &mut Rng = p.rng;
                        let after = visit(*child, depth + 1, max_depth, child_state, nodes, rng_ref, texts, expected, flat, too_deep, origins, no_origin_root, trap);
                        p = Printer::new(rng_ref);
                        p.out = out_so_far;
                        p.line = line_so_far;
                        p.crlf = crlf;
                        p.features = feats;
                        p.st = after;
                        p.st.origin = saved_origin.clone();
                        if let Some(o) = &saved_origin {
                            flat.extend(format!("$ORIGIN {}\n", o.to_text()).bytes());
                        }
                        if saved_origin.is_none() && !*too_deep && p.rng.chance(1, 2) {
                            // back in a file that has no origin (the included file had one): a
                            // relative owner here must be an error, not a record under a leaked origin
                            p.out.extend(if p.rng.bool() { &b"relative-trap 60 IN A 192.0.2.1"[..] } else { &b"@ 60 IN A 192.0.2.1"[..] });
                            p.eol();
                            *trap = true;
                            *too_deep = true;
                        }
                    }
                }
            }
            flat.extend_from_slice(&p.out[mark..]);
            if !matches!(flat.last(), Some(b'\n')) {
                flat.push(b'\n');
            }
            texts[idx] = p.out.clone();
            p.st.clone()
        }
        let no_origin_root = rng.chance(1, 4);
        let mut trap = false;
        visit(0, 0, max_depth, PState::default(), &nodes, &mut rng, &mut texts, &mut expected, &mut flat, &mut too_deep, &origins, no_origin_root, &mut trap);
        let mut write_failed = false;
        for (i, node) in nodes.iter().enumerate() {
            if std::fs::write(disk_path(&dir, &node.rel_path), &texts[i]).is_err() {
                write_failed = true;
            }
        }
        if write_failed {
            rep.inconclusive("cannot write zone files into the work directory");
            return;
        }
        // the root file is opened by its absolute path, or (from inside the tree's directory) by a
        // relative one: bare, with a leading "./", or through a "x/../" detour. Relative include
        // paths with ".." must resolve against the including file's directory either way.
        let mut root_path = dir.join(&nodes[0].rel_path);
        if home.is_some() && rng.bool() {
            // change into the root file's own directory (its includes then climb out of the
            // working directory with "..") or into the top of the tree
            let rel = std::path::Path::new(&nodes[0].rel_path);
            let file = rel.file_name().map(|f| f.to_string_lossy().to_string()).unwrap_or_default();
            let own_dir = dir.join(rel.parent().unwrap_or(std::path::Path::new("")));
            if rng.chance(2, 3) {
                if std::env::set_current_dir(&own_dir).is_ok() {
                    root_path = PathBuf::from(if rng.bool() { file } else { format!("./{}", file) });
                }
            } else if std::env::set_current_dir(&dir).is_ok() {
                root_path = PathBuf::from(match rng.below(3) {
                    0 => format!("./{}", nodes[0].rel_path),
                    1 => format!("other/../{}", nodes[0].rel_path),
                    _ => nodes[0].rel_path.clone(),
                });
            }
        }
        let result = panicmon::catch(|| {
            let mut out: Vec<Result<(PathBuf, usize, ZRec), String>> = Vec::new();
            match zone_file::fs::Parser::open(&root_path, max_depth) {
                Err(e) => out.push(Err(format!("open: {}", e))),
                Ok(parser) => {
                    for item in parser {
                        match item {
                            Ok(line) => out.push(Ok((
                                line.path.to_path_buf(),
                                line.number,
                                ZRec { owner: to_rname(&line.record.owner), ttl: u32::from(line.record.ttl), class: u16::from(line.record.class), rtype: u16::from(line.record.rr_type), rdata: line.record.rdata.octets().to_vec() },
                            ))),
                            Err(e) => {
                                out.push(Err(format!("{}", e)));
                                break;
                            }
                        }
                    }
                }
            }
            out
        });
        rep.eval();
        let w = || {
            Json::obj(vec![
                ("max_depth", Json::Int(max_depth as i128)),
                ("files", Json::Arr(nodes.iter().enumerate().map(|(i, nd)| Json::obj(vec![("path", Json::s(nd.rel_path.clone())), ("text", Json::s(String::from_utf8_lossy(&texts[i]).to_string()))])).collect())),
            ])
        };
        let items = match result {
            Err(p) => {
                rep.violation(format!("c25:{}", p.signature()), format!("fs parser panicked at {}: {}", p.location, p.message), w());
                continue;
            }
            Ok(x) => x,
        };
        let ended_in_error = matches!(items.last(), Some(Err(_)));
        if too_deep != ended_in_error {
            let e = items.last().and_then(|r| r.as_ref().err().cloned()).unwrap_or_default();
            // WKS bit order (known finding of C23) also shows up here as a value mismatch, not as an error
            rep.violation(if trap { "c25:relative-name-accepted-without-origin" } else if too_deep { "c25:depth-limit-not-enforced" } else { "c25:unexpected-error" }, format!("nesting needs depth {}, limit {}: parser ended with error = {} ({})", max_depth_needed, max_depth, ended_in_error, e), w());
            continue;
        }
        let got: Vec<&(PathBuf, usize, ZRec)> = items.iter().filter_map(|r| r.as_ref().ok()).collect();
        let mut ok = true;
        if got.len() != expected.len() {
            rep.violation("c25:record-count", format!("{} records parsed, expected {}", got.len(), expected.len()), w());
            continue;
        }
        for (g, (fi, e)) in got.iter().zip(expected.iter()) {
            let want_path = disk_path(&dir, &nodes[*fi].rel_path);
            let same_file = match (std::fs::canonicalize(&g.0), std::fs::canonicalize(&want_path)) {
                (Ok(a), Ok(b)) => a == b,
                _ => false,
            };
            let wks = e.rec.rtype == T_WKS && e.rec.class == C_IN;
            if g.2 != e.rec && !wks {
                rep.violation(format!("c25:record-differs:type{}", e.rec.rtype), format!("in {}: parsed {:?}, expected {:?}", nodes[*fi].rel_path, g.2, e.rec), w());
                ok = false;
                break;
            }
            if !same_file || g.1 != e.line {
                rep.violation("c25:path-or-line", format!("record attributed to {}:{} but it is at {}:{}", g.0.display(), g.1, nodes[*fi].rel_path, e.line), w());
                ok = false;
                break;
            }
        }
        // second reference: the stream parser on the textual flattening
        if ok && !too_deep {
            let (flat_items, _) = parse_stream(&flat, false, 0);
            let flat_recs: Vec<&ZRec> = flat_items.iter().filter_map(|p| if let Parsed::Rec(_, r) = p { Some(r) } else { None }).collect();
            if flat_recs.len() != got.len() || flat_recs.iter().zip(got.iter()).any(|(a, b)| **a != b.2) {
                rep.violation("c25:differs-from-flattening", "the records differ from those of the textually flattened file".to_string(), {
                    let mut j = w();
                    if let Json::Obj(ref mut items) = j {
                        items.push(("flattened".into(), Json::s(String::from_utf8_lossy(&flat).to_string())));
                    }
                    j
                });
                ok = false;
            }
        }
        if ok {
            rep.class(&format!("files{}:depth{}:limit{}:deep{}:noorigin{}:trap{}", n_files, max_depth_needed, max_depth, too_deep, no_origin_root, trap));
            rep.hist(if too_deep { "too-deep" } else { "parsed" });
        }
        if case % 200 == 0 {
            rep.sample(|| w());
        }
    }
    if let Some(h) = &home {
        let _ = std::env::set_current_dir(h);
    }
    let _ = std::fs::remove_dir_all(&base);
}
