//! C10 — TSIG in the server; C11 — TSIG MACs at the library level.
//! All reference MACs come from the harness's own HMAC (hmac.rs).

use std::sync::Arc;

use quandary::class::Class;
use quandary::message::tsig::{PreparedTsigRr, ReadTsigRr};
use quandary::message::writer::{Hint, HintedName, TsigMode};
use quandary::message::{ExtendedRcode, Qclass, Qtype, Question, Reader, Writer};
use quandary::name::LowercaseName;
use quandary::rr::rdata::TimeSigned;
use quandary::rr::{Rdata, Ttl, Type};

use crate::gen::*;
use crate::hmac::{self, Alg, Kind, TsigVars};
use crate::msgbuild::*;
use crate::names::RName;
use crate::panicmon;
use crate::props::server::{gen_keys, m02, Scenario};
use crate::reqclass::classify;
use crate::reqgen::*;
use crate::report::{hex, Json, Report};
use crate::rng::Rng;
use crate::srv::*;
use crate::wire::*;
use crate::zonemodel::*;
use crate::Ctx;

fn now_unix() -> u64 {
    std::time::SystemTime::now().duration_since(std::time::UNIX_EPOCH).unwrap().as_secs()
}

// =====================================================================
// C11
// =====================================================================

fn lower_box(n: &RName) -> Box<LowercaseName> {
    qname(n).into()
}

/// Finds the TSIG record of a decoded message and returns
/// (offset where it starts, owner, fields).
fn find_tsig(msg: &[u8]) -> Result<(usize, RName, TsigFields, Msg), String> {
    let m = decode(msg)?;
    check_pseudo_records(&m)?;
    let t = m.tsig().ok_or("no TSIG record")?.clone();
    if t.class != C_ANY || t.ttl != 0 {
        return Err(format!("TSIG class {} ttl {}", t.class, t.ttl));
    }
    let f = parse_tsig_rdata(&t.rdata_raw).ok_or("TSIG RDATA does not parse")?;
    Ok((t.start, t.owner.name.clone(), f, m))
}

fn gen_message_with_writer(rng: &mut Rng, buf: &mut [u8], mode: TsigMode, rr: PreparedTsigRr) -> Result<(usize, Option<Vec<u8>>), String> {
    let pool = [RName::simple("example.test."), RName::simple("www.example.test."), RName::simple("Mail.Example.Test."), RName::root()];
    let mut w = Writer::new(buf, 65535).map_err(|e| format!("{:?}", e))?;
    w.set_id(rng.u16());
    w.set_qr(rng.bool());
    w.set_aa(rng.bool());
    w.set_rd(rng.bool());
    if rng.chance(3, 4) {
        let q = Question {
            qname: qname(rng.pick(&pool)),
            qtype: Qtype::from(rng.u16() & 0xff),
            qclass: Qclass::from(1),
        };
        w.add_question(&q).map_err(|e| format!("{:?}", e))?;
    }
    let n = rng.below(4);
    for _ in 0..n {
        let owner = qname(rng.pick(&pool));
        let rd = rng.bytes_below(40);
        let rdata: &Rdata = rd.as_slice().try_into().unwrap();
        let r = match rng.below(3) {
            0 => w.add_answer_rr(HintedName::new(Hint::None, &owner), Type::from(99), Class::IN, Ttl::from(60), rdata, None),
            1 => w.add_authority_rr(HintedName::new(Hint::None, &owner), Type::TXT, Class::IN, Ttl::from(60), rdata, None),
            _ => w.add_additional_rr(HintedName::new(Hint::None, &owner), Type::from(65280), Class::CH, Ttl::from(0), rdata, None),
        };
        let _ = r;
    }
    let edns = rng.chance(1, 3);
    if rng.chance(1, 6) {
        // many additional records: the ARCOUNT that the digest must
        // decrement then crosses an octet boundary (255, 256, 257, 512 ...)
        let target = *rng.pick(&[255usize, 256, 256, 257, 511, 512, 513]);
        let already = w.arcount() as usize;
        let extra = target.saturating_sub(already + 1 + edns as usize);
        let root = qname(&RName::root());
        for _ in 0..extra {
            let _ = w.add_additional_rr(HintedName::new(Hint::None, &root), Type::from(99), Class::IN, Ttl::from(0), Rdata::empty(), None);
        }
    }
    if edns {
        w.set_edns(1232).map_err(|e| format!("{:?}", e))?;
    }
    w.set_tsig(mode, rr).map_err(|e| format!("set_tsig: {:?}", e))?;
    let (len, mac) = w.finish_with_mac();
    Ok((len, mac.map(|m| m.to_vec())))
}

pub fn run_c11(ctx: &Ctx, rep: &mut Report) {
    let n = ctx.cases(4_800, 60_000);
    let mut buf = vec![0u8; 65535];
    for case in ctx.case_range(n) {
        rep.current_case = case;
        let mut rng = ctx.rng("c11", case);
        let alg = if rng.bool() { Alg::Sha1 } else { Alg::Sha256 };
        let secret = {
            let len = *rng.pick(&[1usize, 16, 20, 32, 63, 64, 65, 128]);
            rng.bytes(len)
        };
        let key_name = match rng.below(4) {
            0 => RName::simple("KeY.Example.Test."),
            1 => RName::simple("k."),
            _ => RName::simple("tsig-key.example.test."),
        };
        let time = match rng.below(6) {
            0 => 0,
            1 => 0xffff_ffff_ffff,
            2 => rng.next_u64() & 0xffff_ffff_ffff,
            _ => 1_700_000_000 + rng.below(1_000_000) as u64,
        };
        let fudge = *rng.pick(&[0u16, 1, 300, 65535]);
        let original_id = rng.u16();
        let error: u16 = *rng.pick(&[0u16, 0, 0, 16, 17, 18, 18, 4095]);
        let server_time = rng.next_u64() & 0xffff_ffff_ffff;
        let prior = {
            let len = *rng.pick(&[0usize, 10, 16, 20, 32, 64]);
            rng.bytes(len)
        };
        let kind = *rng.pick(&[Kind::Request, Kind::Response, Kind::Subsequent]);
        let mode = match kind {
            Kind::Request => TsigMode::Request { algorithm: qalg(alg), key: secret.clone().into_boxed_slice() },
            Kind::Response => TsigMode::Response { algorithm: qalg(alg), request_mac: prior.clone().into_boxed_slice(), key: secret.clone().into_boxed_slice() },
            Kind::Subsequent => TsigMode::Subsequent { algorithm: qalg(alg), prior_mac: prior.clone().into_boxed_slice(), key: secret.clone().into_boxed_slice() },
        };
        let rr = PreparedTsigRr {
            key_name: lower_box(&key_name),
            time_signed: TimeSigned::try_from_unix_time(time).unwrap(),
            fudge,
            original_id,
            error: ExtendedRcode::from(error),
            server_time: TimeSigned::try_from_unix_time(server_time).unwrap(),
        };
        let want_other: Vec<u8> = if error == 18 { hmac::time48(server_time).to_vec() } else { Vec::new() };
        let built = panicmon::catch(|| gen_message_with_writer(&mut rng.clone(), &mut buf, mode, rr));
        let witness = |extra: Vec<(&str, Json)>| {
            let mut v = vec![
                ("algorithm", Json::s(format!("{:?}", alg))),
                ("key", Json::hex(&secret)),
                ("kind", Json::s(format!("{:?}", kind))),
                ("prior_mac", Json::hex(&prior)),
                ("time", Json::Int(time as i128)),
                ("fudge", Json::Int(fudge as i128)),
                ("error", Json::Int(error as i128)),
            ];
            v.extend(extra);
            Json::obj(v)
        };
        let (len, mac) = match built {
            Err(p) => {
                rep.violation(format!("c11:sign:{}", p.signature()), format!("signing panicked at {}: {}", p.location, p.message), witness(vec![]));
                continue;
            }
            Ok(Err(e)) => {
                rep.hist(&format!("skipped:{}", e.split(':').next().unwrap_or("")));
                continue;
            }
            Ok(Ok(x)) => x,
        };
        let msg = buf[..len].to_vec();
        rep.eval();
        let mac = match mac {
            Some(m) => m,
            None => {
                rep.violation("c11:no-mac", "finish_with_mac returned no MAC for a signing mode".to_string(), witness(vec![("message", Json::hex(&msg))]));
                continue;
            }
        };
        let (tsig_start, owner, fields, _m) = match find_tsig(&msg) {
            Ok(x) => x,
            Err(e) => {
                rep.violation("c11:signed-message-malformed", format!("signed message is not well formed: {}", e), witness(vec![("message", Json::hex(&msg))]));
                continue;
            }
        };
        let vars = TsigVars { key_name: key_name.clone(), algorithm: alg.name(), time_signed: time, fudge, error, other: want_other.clone() };
        let want_mac = hmac::tsig_mac(alg, &secret, kind, &prior, &msg[..tsig_start], original_id, &vars);
        let mut bad = Vec::new();
        if mac != want_mac {
            bad.push(format!("MAC {} differs from the RFC 8945 computation {}", hex(&mac), hex(&want_mac)));
        }
        if fields.mac != mac {
            bad.push("MAC in the TSIG RR differs from the MAC returned by finish_with_mac".to_string());
        }
        if !owner.eq_ci(&key_name) || !fields.algorithm.eq_ci(&alg.name()) || fields.time_signed != time || fields.fudge != fudge || fields.original_id != original_id || fields.error != error || fields.other != want_other {
            bad.push(format!("TSIG fields differ: owner {} alg {} time {} fudge {} id {} error {} other {}", owner.to_text(), fields.algorithm.to_text(), fields.time_signed, fields.fudge, fields.original_id, fields.error, hex(&fields.other)));
        }
        for b in &bad {
            rep.violation(format!("c11:sign:{:?}:{}", kind, b.split(' ').next().unwrap_or("?")), b.clone(), witness(vec![("message", Json::hex(&msg))]));
        }
        if !bad.is_empty() {
            continue;
        }
        rep.class(&format!("signed:{:?}:{:?}:err{}:prior{}", kind, alg, error, prior.len()));

        // ---- verification -------------------------------------------
        // verify(msg bytes, now) -> Result<(), String> using quandary's reader + ReadTsigRr
        let verify = |m: &[u8], prior_mac: &[u8], now: u64| -> Result<(), String> {
            let mut r = Reader::try_from(m).map_err(|e| format!("reader: {:?}", e))?;
            for _ in 0..r.qdcount() {
                r.read_question().map_err(|e| format!("question: {:?}", e))?;
            }
            let total = r.ancount() as usize + r.nscount() as usize + r.arcount() as usize;
            if total == 0 {
                return Err("no records".into());
            }
            for _ in 0..total - 1 {
                r.skip_rr().map_err(|e| format!("skip: {:?}", e))?;
            }
            let before = r.message_to_cursor();
            let rr = r.read_rr().map_err(|e| format!("tsig rr: {:?}", e))?;
            if !r.at_eom() {
                return Err("TSIG not last".into());
            }
            let t = ReadTsigRr::try_from(rr).map_err(|e| format!("tsig: {:?}", e))?;
            let qa = match hmac::Alg::from_name(&RName::from_wire_all(t.algorithm().wire_repr()).unwrap()) {
                Some(a) if a == alg => qalg(a),
                _ => return Err("algorithm changed".into()),
            };
            let now = TimeSigned::try_from_unix_time(now & 0xffff_ffff_ffff).unwrap();
            let res = match kind {
                Kind::Request => t.verify_request(before, qa, &secret, now),
                Kind::Response => t.verify_response(before, prior_mac, qa, &secret, now),
                Kind::Subsequent => t.verify_subsequent(before, prior_mac, qa, &secret, now),
            };
            res.map_err(|e| format!("{:?}", e))
        };
        // time window
        let f = fudge as u64;
        let probes: Vec<(u64, bool)> = vec![
            (time, true),
            (time.saturating_add(f).min(0xffff_ffff_ffff), true),
            (time.saturating_sub(f), true),
            (time.saturating_add(f + 1), time.saturating_add(f + 1) > 0xffff_ffff_ffff || false),
            (time.wrapping_sub(f + 1), time < f + 1),
        ];
        for (i, (now, expect_ok)) in probes.iter().enumerate() {
            if *now > 0xffff_ffff_ffff {
                continue;
            }
            // the last two probes are outside the window unless clamped by the ends of the time range
            let inside = *now >= time.saturating_sub(f) && *now <= time.saturating_add(f);
            let _ = expect_ok;
            rep.eval();
            match panicmon::catch(|| verify(&msg, &prior, *now)) {
                Err(p) => rep.violation(format!("c11:verify:{}", p.signature()), format!("verification panicked at {}: {}", p.location, p.message), witness(vec![("message", Json::hex(&msg))])),
                Ok(r) => {
                    if r.is_ok() != inside {
                        rep.violation(
                            format!("c11:verify-time:{}", if inside { "rejects-inside" } else { "accepts-outside" }),
                            format!("verification at now={} (time signed {}, fudge {}) gives {:?}", now, time, fudge, r),
                            witness(vec![("message", Json::hex(&msg)), ("now", Json::Int(*now as i128))]),
                        );
                    } else if !inside && r != Err("BadTime".to_string()) {
                        rep.violation("c11:verify-time:wrong-error", format!("outside the window the error is {:?}", r), witness(vec![("message", Json::hex(&msg))]));
                    }
                    rep.class(&format!("verify-time:{}:{}", i, inside));
                }
            }
        }
        // truncated MACs: rebuild the TSIG RR by hand with a shorter MAC
        let full = alg.output_len();
        let min_ok = std::cmp::max(10, (full + 1) / 2);
        for l in [0usize, 1, 9, 10, min_ok - 1, min_ok, full - 1, full, full + 1] {
            let mut sent: Vec<u8> = want_mac.iter().cloned().take(l).collect();
            while sent.len() < l {
                sent.push(0);
            }
            let rdata = hmac::tsig_rdata(&vars, &sent, original_id);
            let mut e = Encoder::new();
            e.msg = msg[..tsig_start].to_vec();
            e.put_record(&RecSpec::new(NameEnc::Plain(key_name.clone()), T_TSIG, C_ANY, 0, rdata));
            let expect_ok = l >= min_ok && l <= full;
            rep.eval();
            match panicmon::catch(|| verify(&e.msg, &prior, time)) {
                Err(p) => rep.violation(format!("c11:verify-trunc:{}", p.signature()), format!("verification panicked at {}: {}", p.location, p.message), witness(vec![("message", Json::hex(&e.msg))])),
                Ok(r) => {
                    if r.is_ok() != expect_ok {
                        rep.violation(
                            format!("c11:verify-truncated:{}", if expect_ok { "rejects-allowed-length" } else { "accepts-forbidden-length" }),
                            format!("{:?} MAC truncated to {} octets: {:?}", alg, l, r),
                            witness(vec![("message", Json::hex(&e.msg))]),
                        );
                    } else if !expect_ok && r != Err("FormErr".to_string()) {
                        rep.violation("c11:verify-truncated:wrong-error", format!("{:?} MAC of {} octets rejected with {:?}, expected FormErr", alg, l, r), witness(vec![("message", Json::hex(&e.msg))]));
                    }
                    rep.class(&format!("verify-trunc:{:?}:{}:{}", alg, l, expect_ok));
                }
            }
        }
        // a truncated MAC whose octets are wrong must fail
        {
            let mut sent: Vec<u8> = want_mac[..min_ok].to_vec();
            sent[min_ok - 1] ^= 0x80;
            let rdata = hmac::tsig_rdata(&vars, &sent, original_id);
            let mut e = Encoder::new();
            e.msg = msg[..tsig_start].to_vec();
            e.put_record(&RecSpec::new(NameEnc::Plain(key_name.clone()), T_TSIG, C_ANY, 0, rdata));
            rep.eval();
            if let Ok(Ok(())) = panicmon::catch(|| verify(&e.msg, &prior, time)) {
                rep.violation("c11:verify-truncated:accepts-wrong-prefix", "a truncated MAC with a wrong last octet verifies".to_string(), witness(vec![("message", Json::hex(&e.msg))]));
            }
        }
        // single-octet corruption of every covered octet
        let limit = if ctx.thorough { msg.len() } else { msg.len().min(260) };
        let mut corrupted_ok = 0u64;
        'corrupt: for pos in 2..limit {
          // four single-bit changes per octet (a field may shrink as well as grow); never bit 5, a
          // pure ASCII-case change (names are compared and digested case-insensitively), and never
          // bit 7 of the first octet of the TSIG RR's TTL (a TTL with only its top bit set is the
          // RFC 2181 "treat as zero" case)
          for mask in [0x01u8, 0x02, 0x04, 0x80] {
            if mask == 0x80 && pos == tsig_start + key_name.wire_len() + 4 {
                continue;
            }
            let mut m = msg.clone();
            m[pos] ^= mask;
            if pos >= tsig_start && pos < tsig_start + key_name.wire_len() {
                // key-name octets: a length-octet change may re-frame the name; still must not verify
            }
            rep.eval();
            match panicmon::catch(|| verify(&m, &prior, time)) {
                Err(p) => {
                    rep.violation(format!("c11:verify-corrupt:{}", p.signature()), format!("verification of a corrupted message panicked at {}: {} (offset {})", p.location, p.message, pos), witness(vec![("message", Json::hex(&m))]));
                    break 'corrupt;
                }
                Ok(Ok(())) => {
                    // position of the corrupted octet relative to the message structure
                    let region = if pos < 12 { "header" } else if pos < tsig_start { "body" } else { "tsig-rr" };
                    // the subsequent-message digest does not cover key name, class, TTL, algorithm, error, other
                    let uncovered_in_subsequent = kind == Kind::Subsequent && pos >= tsig_start;
                    if uncovered_in_subsequent {
                        rep.hist("corruption-not-covered-by-subsequent-digest");
                    } else {
                        rep.violation(
                            format!("c11:verify-corrupt:accepted:{}", region),
                            format!("octet {} ({}) XOR {:#04x} still verifies", pos, region, mask),
                            witness(vec![("message", Json::hex(&m)), ("offset", Json::Int(pos as i128))]),
                        );
                        break 'corrupt;
                    }
                }
                Ok(Err(_)) => corrupted_ok += 1,
            }
          }
        }
        rep.hist_n("corruptions-rejected", corrupted_ok);
        // corrupted prior MAC
        if kind != Kind::Request && !prior.is_empty() {
            let mut p2 = prior.clone();
            p2[0] ^= 1;
            rep.eval();
            if let Ok(Ok(())) = panicmon::catch(|| verify(&msg, &p2, time)) {
                rep.violation("c11:verify-corrupt:prior-mac", "verification succeeds with a different prior MAC".to_string(), witness(vec![("message", Json::hex(&msg))]));
            }
        }
        // wrong key
        {
            rep.eval();
            let mut k2 = secret.clone();
            k2[0] ^= 1;
            let v2 = |m: &[u8]| -> bool {
                let mut r = Reader::try_from(m).unwrap();
                for _ in 0..r.qdcount() {
                    let _ = r.read_question();
                }
                let total = r.ancount() as usize + r.nscount() as usize + r.arcount() as usize;
                for _ in 0..total - 1 {
                    let _ = r.skip_rr();
                }
                let before = r.message_to_cursor();
                let rr = r.read_rr().unwrap();
                let t = ReadTsigRr::try_from(rr).unwrap();
                let now = TimeSigned::try_from_unix_time(time).unwrap();
                match kind {
                    Kind::Request => t.verify_request(before, qalg(alg), &k2, now).is_ok(),
                    Kind::Response => t.verify_response(before, &prior, qalg(alg), &k2, now).is_ok(),
                    Kind::Subsequent => t.verify_subsequent(before, &prior, qalg(alg), &k2, now).is_ok(),
                }
            };
            if let Ok(true) = panicmon::catch(|| v2(&msg)) {
                rep.violation("c11:verify-wrong-key", "verification succeeds with a different key".to_string(), witness(vec![("message", Json::hex(&msg))]));
            }
        }
        if case % 100 == 0 {
            rep.sample(|| witness(vec![("message", Json::hex(&msg)), ("mac", Json::hex(&mac))]));
        }
    }
}

// =====================================================================
// C10
// =====================================================================

#[derive(Clone, Copy, Debug, PartialEq, Eq)]
enum Variant {
    Valid,
    Truncated,
    BadMac,
    UnknownKey,
    UnknownAlg,
    WrongAlgForKey,
    BadMacLen,
    Stale,
    Future,
    BadMacAndStale,
}

fn c10_scenario(rng: &mut Rng) -> Scenario {
    let opts = CatalogOpts { zone: ZoneOpts { max_records: 16, hostile: false, bulky: false }, max_zones: 2, allow_unloaded: false, classes: vec![C_IN] };
    let built = gen_catalog(rng, &opts);
    let names = interesting_names(rng, &built.reference);
    let cfg = ServerCfg { payload: *rng.pick(&[512u16, 1232, 4096]), rrl: None, keys: if rng.chance(1, 10) { Vec::new() } else { gen_keys(rng, &names) } };
    let server = make_server(Arc::new(built.catalog.clone()), &cfg);
    let bufs = Buffers::roomy(cfg.payload, rng);
    Scenario { built, server, cfg, bufs, names, classes: vec![C_IN] }
}

pub fn run_c10(ctx: &Ctx, rep: &mut Report) {
    let n = ctx.cases(16_000, 200_000);
    for case in ctx.case_range(n) {
        rep.current_case = case;
        let mut rng = ctx.rng("c10", case);
        if case % 64 == 5 {
            // signed requests (valid, stale, bad MAC, unknown key, short MAC) with every QNAME length
            // 2..255 against a key name near the size limit: every one must get a response
            crate::props::server::tsig_size_sweep(rep, &mut rng, "c10");
        }
        let mut sc = c10_scenario(&mut rng);
        for _ in 0..24 {
            // (a server without any key: every signed request names an unknown key)
            let no_keys = sc.cfg.keys.is_empty();
            let key = if no_keys { Key { name: RName::simple("unconfigured.example."), alg: if rng.bool() { Alg::Sha1 } else { Alg::Sha256 }, secret: rng.bytes(32) } } else { rng.pick(&sc.cfg.keys).clone() };
            let mut spec = gen_query(&mut rng, &sc.names, &[C_IN], (1, 3));
            if rng.chance(1, 12) {
                // ignorable additional records in front, so that ARCOUNT (with the TSIG record) is
                // 255, 256, 257 or 512: the digest is computed over the message with ARCOUNT - 1
                let target = *rng.pick(&[256usize, 256, 255, 257, 512]);
                let n = target.saturating_sub(1 + spec.additionals.len());
                for i in 0..n {
                    spec.additionals.insert(0, RecSpec::new(NameEnc::Plain(RName::root()), T_TXT, C_IN, 0, vec![1, b'a' + (i % 26) as u8]));
                }
            }
            let (base, _) = encode(&spec);
            let variant = if no_keys { Variant::UnknownKey } else { *rng.pick(&[Variant::Valid, Variant::Valid, Variant::Valid, Variant::Truncated, Variant::BadMac, Variant::UnknownKey, Variant::UnknownAlg, Variant::WrongAlgForKey, Variant::BadMacLen, Variant::Stale, Variant::Future, Variant::BadMacAndStale]) };
            let now = now_unix();
            let mut o = SignOpts::at(now);
            o.fudge = *rng.pick(&[300u16, 300, 60, 1000]);
            let full = key.alg.output_len();
            let min_ok = std::cmp::max(10, (full + 1) / 2);
            let mut sign_key = key.clone();
            // spell the key name with random case: names are case-insensitive
            o.key_name_override = Some(random_case(&mut rng, &key.name));
            match variant {
                Variant::Valid => {
                    let max_off = (o.fudge as i64 - 10).max(0);
                    let off = rng.below((2 * max_off + 1) as usize) as i64 - max_off;
                    o.time = (now as i64 + off) as u64;
                }
                Variant::Truncated => o.mac_len = Some(rng.range(min_ok, full)),
                Variant::BadMac => o.corrupt_mac = true,
                Variant::UnknownKey => {
                    o.key_name_override = Some(RName::simple("no-such-key.example."));
                }
                Variant::UnknownAlg => o.alg_name_override = Some(RName::simple(*rng.pick(&["hmac-md5.sig-alg.reg.int.", "hmac-sha512.", "hmac-sha1.example."]))),
                Variant::WrongAlgForKey => {
                    // signed (correctly) with the other algorithm under the same key name
                    sign_key.alg = if key.alg == Alg::Sha1 { Alg::Sha256 } else { Alg::Sha1 };
                }
                Variant::BadMacLen => {
                    let choices: Vec<usize> = vec![0, 1, 9, min_ok - 1, full + 1, full + 8];
                    o.mac_len = Some(*rng.pick(&choices));
                }
                Variant::Stale => o.time = now - o.fudge as u64 - 10 - rng.below(100_000) as u64,
                Variant::Future => o.time = now + o.fudge as u64 + 10 + rng.below(100_000) as u64,
                Variant::BadMacAndStale => {
                    o.corrupt_mac = true;
                    o.time = now - o.fudge as u64 - 1000;
                }
            }
            let (req, _full_mac, sent_mac) = sign_request(&base, &sign_key, &o);
            let tcp = rng.chance(1, 3);
            let p = classify(&req);
            rep.eval();
            let resp = match handle(&sc.server, &req, LOCALHOST, tcp, &mut sc.bufs) {
                Ok(r) => r,
                Err(pi) => {
                    rep.violation(format!("c10:no-response-panic:{}", pi.signature()), format!("panic at {}: {} ({:?})", pi.location, pi.message, variant), Json::obj(vec![("request", Json::hex(&req))]));
                    continue;
                }
            };
            let w = |resp: &Option<Vec<u8>>| {
                Json::obj(vec![
                    ("request", Json::hex(&req)),
                    ("variant", Json::s(format!("{:?}", variant))),
                    ("transport", Json::s(if tcp { "tcp" } else { "udp" })),
                    ("key_name", Json::s(key.name.to_text())),
                    ("key_alg", Json::s(format!("{:?}", key.alg))),
                    ("key_secret", Json::hex(&key.secret)),
                    ("response", resp.as_ref().map(|r| Json::hex(r)).unwrap_or(Json::Null)),
                ])
            };
            let r = match &resp {
                Some(r) => r,
                None => {
                    rep.violation("c10:no-response", format!("no response to a TSIG request ({:?})", variant), w(&resp));
                    continue;
                }
            };
            let m = match m02(r) {
                Ok(m) => m,
                Err(e) => {
                    rep.violation("c10:undecodable", format!("response does not decode: {} ({:?})", e, variant), w(&resp));
                    continue;
                }
            };
            let limit = if tcp { 65535 } else { p.opt.as_ref().map(|o| o.payload.clamp(512, sc.cfg.payload) as usize).unwrap_or(512) };
            if r.len() > limit {
                rep.violation("c10:over-limit", format!("response of {} octets exceeds {}", r.len(), limit), w(&resp));
                continue;
            }
            // does question + OPT + TSIG fit at all?
            let tsig_key_wire = o.key_name_override.as_ref().unwrap_or(&key.name).wire_len();
            let alg_wire = o.alg_name_override.as_ref().map(|a| a.wire_len()).unwrap_or(sign_key.alg.name().wire_len());
            let needed = 12 + p.question.as_ref().map(|q| q.raw.len()).unwrap_or(0) + if p.opt_reached { 11 } else { 0 } + tsig_key_wire + 10 + alg_wire + 16 + 32 + 6;
            let tsig = m.tsig().cloned();
            let data = m.data_records().count();
            if tsig.is_none() {
                if needed > limit && data == 0 {
                    rep.hist("tsig-does-not-fit");
                    rep.class(&format!("{:?}:does-not-fit", variant));
                } else {
                    rep.violation(format!("c10:{:?}:no-tsig", variant), "response to a TSIG request carries no TSIG record".to_string(), w(&resp));
                }
                continue;
            }
            let tsig = tsig.unwrap();
            let f = match parse_tsig_rdata(&tsig.rdata_raw) {
                Some(f) => f,
                None => {
                    rep.violation("c10:tsig-rdata", "response TSIG RDATA does not parse".to_string(), w(&resp));
                    continue;
                }
            };
            let key_name_sent = o.key_name_override.clone().unwrap_or_else(|| key.name.clone());
            let mut problems: Vec<(String, String)> = Vec::new();
            if !tsig.owner.name.eq_ci(&key_name_sent) {
                problems.push(("key-name".into(), format!("response TSIG owner {} != request key name {}", tsig.owner.name.to_text(), key_name_sent.to_text())));
            }
            if f.original_id != p.header.as_ref().unwrap().id {
                problems.push(("original-id".into(), format!("original ID {} != request ID", f.original_id)));
            }
            let expect: (u16, u16, bool) = match variant {
                // (RCODE, TSIG error, signed)
                Variant::Valid | Variant::Truncated => (u16::MAX, 0, true),
                Variant::BadMac | Variant::BadMacAndStale => (RC_NOTAUTH, RC_BADVERS, false),
                Variant::UnknownKey | Variant::UnknownAlg | Variant::WrongAlgForKey => (RC_NOTAUTH, RC_BADKEY, false),
                Variant::BadMacLen => (RC_FORMERR, u16::MAX, false),
                Variant::Stale | Variant::Future => (RC_NOTAUTH, RC_BADTIME, true),
            };
            if expect.0 != u16::MAX {
                if m.ext_rcode() != expect.0 {
                    problems.push(("rcode".into(), format!("RCODE {} expected {}", m.ext_rcode(), expect.0)));
                }
                if data != 0 {
                    problems.push(("data".into(), "failure response carries answer data".into()));
                }
            }
            if expect.1 != u16::MAX && f.error != expect.1 {
                problems.push(("tsig-error".into(), format!("TSIG error {} expected {}", f.error, expect.1)));
            }
            if expect.2 {
                // the response must verify against the request MAC as sent
                let resp_alg = Alg::from_name(&f.algorithm);
                if resp_alg != Some(key.alg) {
                    problems.push(("algorithm".into(), format!("response algorithm {} != key algorithm", f.algorithm.to_text())));
                } else {
                    let vars = TsigVars { key_name: tsig.owner.name.clone(), algorithm: f.algorithm.clone(), time_signed: f.time_signed, fudge: f.fudge, error: f.error, other: f.other.clone() };
                    let want = hmac::tsig_mac(key.alg, &key.secret, Kind::Response, &sent_mac, &r[..tsig.start], f.original_id, &vars);
                    if f.mac != want {
                        problems.push(("mac".into(), format!("response MAC {} does not verify against the request MAC (expected {})", hex(&f.mac), hex(&want))));
                    }
                }
                if matches!(variant, Variant::Stale | Variant::Future) {
                    if f.time_signed != o.time {
                        problems.push(("badtime-time".into(), format!("BADTIME response time signed {} != request time signed {}", f.time_signed, o.time)));
                    }
                    if f.other.len() != 6 {
                        problems.push(("badtime-other".into(), format!("BADTIME response other-data of {} octets", f.other.len())));
                    } else {
                        let mut t = [0u8; 8];
                        t[2..].copy_from_slice(&f.other);
                        let st = u64::from_be_bytes(t);
                        if (st as i64 - now as i64).abs() > 5 {
                            problems.push(("badtime-server-time".into(), format!("server time {} in other-data is not the current time {}", st, now)));
                        }
                    }
                } else {
                    if (f.time_signed as i64 - now as i64).abs() > 5 {
                        problems.push(("time-signed".into(), format!("response time signed {} is not the current time {}", f.time_signed, now)));
                    }
                    // answered normally: compare with the reference responder
                    if let Some(q) = &p.question {
                        if p.header.as_ref().unwrap().opcode() == 0 {
                            let exp = respond(&sc.built.reference, &q.name, q.qtype, q.qclass);
                            if exp.unspecified.is_none() && !m.header.tc() {
                                if m.ext_rcode() != exp.rcode || m.header.aa() != exp.aa || m.section(Section::Answer).count() != exp.answer.len() || m.section(Section::Authority).count() != exp.authority.len() {
                                    problems.push(("answer".into(), format!("authenticated request not answered normally: RCODE {} (expected {}), {} answers (expected {})", m.ext_rcode(), exp.rcode, m.section(Section::Answer).count(), exp.answer.len())));
                                }
                            }
                        }
                    }
                }
            } else if !f.mac.is_empty() {
                problems.push(("mac-not-empty".into(), format!("unsigned error response carries a {}-octet MAC", f.mac.len())));
            }
            if problems.is_empty() {
                rep.class(&format!("{:?}:{:?}:rc{}:tc{}", variant, key.alg, m.ext_rcode(), m.header.tc() as u8));
                rep.hist(&format!("variant:{:?}", variant));
            }
            for (sig, detail) in problems {
                rep.violation(format!("c10:{:?}:{}", variant, sig), format!("{:?}: {}", variant, detail), w(&resp));
            }
            if rng.chance(1, 100) && rep.want_sample() {
                let ww = w(&resp);
                rep.sample(|| ww);
            }
        }
    }
}
