//! C16 — domain-name text form, equality, hashing, ordering and
//! accessors agree with the reference model N (names.rs).

use std::cmp::Ordering;
use std::collections::hash_map::DefaultHasher;
use std::hash::{Hash, Hasher};

use quandary::name::{Label, LowercaseName, Name, NameBuilder};

use crate::names::{lower_bytes, RName};
use crate::panicmon;
use crate::report::{hex, Json, Report};
use crate::rng::Rng;
use crate::Ctx;

// ---------------------------------------------------------------------
// generators
// ---------------------------------------------------------------------

const INTERESTING: &[u8] = b".\\ *\"\x00\x7f\xc0\xffaAbBzZ09-_@;()$\t\n";

pub fn gen_label(rng: &mut Rng, max: usize) -> Vec<u8> {
    let len = match rng.below(12) {
        0 => max,
        1 => max.saturating_sub(1).max(1),
        2..=6 => rng.range(1, 3.min(max)),
        _ => rng.range(1, max.min(10)),
    };
    match rng.below(6) {
        0 => vec![b'*'],
        1 => (0..len).map(|_| rng.u8()).collect(),
        2 => (0..len).map(|_| *rng.pick(INTERESTING)).collect(),
        _ => (0..len).map(|_| *rng.pick(b"abAB")).collect(),
    }
}

/// A valid name, biased towards boundaries and towards collisions.
pub fn gen_name(rng: &mut Rng, pool: &[RName]) -> RName {
    if !pool.is_empty() {
        match rng.below(8) {
            0 => return rng.pick(pool).clone(),
            1 => {
                // case variant
                let mut n = rng.pick(pool).clone();
                for l in n.0.iter_mut() {
                    for c in l.iter_mut() {
                        if rng.bool() {
                            *c = if c.is_ascii_lowercase() { c.to_ascii_uppercase() } else { c.to_ascii_lowercase() };
                        }
                    }
                }
                return n;
            }
            2 => {
                // child / parent / sibling of a pool name
                let n = rng.pick(pool).clone();
                let candidate = match rng.below(3) {
                    0 => n.child(&gen_label(rng, 5)),
                    1 => n.parent(1.min(n.0.len())).unwrap(),
                    _ => {
                        let p = n.parent(1.min(n.0.len())).unwrap();
                        p.child(&gen_label(rng, 5))
                    }
                };
                if candidate.is_valid() {
                    return candidate;
                }
            }
            3 => {
                // same octets, different label boundaries
                let n = rng.pick(pool).clone();
                if n.0.len() >= 2 {
                    let mut merged = n.0[0].clone();
                    merged.extend_from_slice(&n.0[1]);
                    if merged.len() <= 63 && merged.len() >= 2 {
                        let cut = rng.range(1, merged.len() - 1);
                        let mut v = vec![merged[..cut].to_vec(), merged[cut..].to_vec()];
                        v.extend(n.0[2..].iter().cloned());
                        let c = RName(v);
                        if c.is_valid() {
                            return c;
                        }
                    }
                }
            }
            4 => {
                // wire-confusable: one label whose octets spell the wire form of
                // (a suffix of) a pool name, so that octet-wise comparisons of
                // wire forms see a label boundary where there is none
                let n = rng.pick(pool).clone();
                if !n.0.is_empty() {
                    let skip = rng.below(n.0.len());
                    let mut label: Vec<u8> = (0..rng.below(3)).map(|_| *rng.pick(b"aA\x01\x03x")).collect();
                    for l in &n.0[skip..] {
                        label.push(l.len() as u8);
                        label.extend_from_slice(l);
                    }
                    if !label.is_empty() && label.len() <= 63 {
                        let mut v: Vec<Vec<u8>> = (0..rng.below(3)).map(|_| gen_label(rng, 5)).collect();
                        v.push(label);
                        // sometimes keep the real suffix as well
                        if rng.bool() {
                            v.extend(n.0[skip..].iter().cloned());
                        }
                        let c = RName(v);
                        if c.is_valid() {
                            return c;
                        }
                    }
                }
            }
            _ => {}
        }
    }
    let shape = rng.below(14);
    let mut labels = Vec::new();
    match shape {
        0 => {}
        1 => {
            // 127 one-octet labels -> 255 octets
            for _ in 0..127 {
                labels.push(vec![*rng.pick(b"abA")]);
            }
        }
        2 => {
            // 63+63+63+61 -> 255 octets
            for len in [63usize, 63, 63, 61] {
                labels.push((0..len).map(|_| *rng.pick(b"xyX")).collect());
            }
        }
        3 => {
            for len in [63usize, 63, 63, 60] {
                labels.push((0..len).map(|_| rng.u8()).collect());
            }
        }
        _ => {
            let n = rng.below(6);
            for _ in 0..n {
                labels.push(gen_label(rng, 63));
            }
        }
    }
    let mut name = RName(labels);
    while !name.is_valid() {
        name.0.pop();
    }
    name
}

fn qname(n: &RName) -> Box<Name> {
    Name::try_from_uncompressed_all(&n.wire()).expect("valid reference name rejected")
}

fn hash_of<T: Hash + ?Sized>(t: &T) -> u64 {
    let mut h = DefaultHasher::new();
    t.hash(&mut h);
    h.finish()
}

// ---------------------------------------------------------------------
// reference text parser (RFC 1035 §5.1)
// ---------------------------------------------------------------------

/// Parses master-file text into an absolute name, or None if the text
/// does not denote one: labels separated by unescaped dots, `\DDD`
/// (three decimal digits, <= 255) and `\X` escapes, trailing dot
/// required, no empty labels, ASCII only, labels <= 63, name <= 255.
pub fn ref_parse(text: &str) -> Option<RName> {
    let b = text.as_bytes();
    if b.is_empty() {
        return None;
    }
    if b == b"." {
        return Some(RName::root());
    }
    let mut labels: Vec<Vec<u8>> = Vec::new();
    let mut cur: Vec<u8> = Vec::new();
    let mut i = 0;
    let mut ended_with_dot = false;
    while i < b.len() {
        let c = b[i];
        ended_with_dot = false;
        if c == b'\\' {
            let d = *b.get(i + 1)?;
            if d.is_ascii_digit() {
                let d2 = *b.get(i + 2)?;
                let d3 = *b.get(i + 3)?;
                if !d2.is_ascii_digit() || !d3.is_ascii_digit() {
                    return None;
                }
                let v = (d - b'0') as u32 * 100 + (d2 - b'0') as u32 * 10 + (d3 - b'0') as u32;
                if v > 255 {
                    return None;
                }
                cur.push(v as u8);
                i += 4;
            } else {
                cur.push(d);
                i += 2;
            }
        } else if c == b'.' {
            if cur.is_empty() {
                return None;
            }
            labels.push(std::mem::take(&mut cur));
            ended_with_dot = true;
            i += 1;
        } else if c >= 0x80 {
            return None;
        } else {
            cur.push(c);
            i += 1;
        }
        if cur.len() > 63 {
            return None;
        }
    }
    if !ended_with_dot {
        return None;
    }
    let n = RName(labels);
    if n.is_valid() {
        Some(n)
    } else {
        None
    }
}

fn gen_text(rng: &mut Rng) -> String {
    let mut s = String::new();
    let n = rng.below(12);
    for _ in 0..n {
        match rng.below(14) {
            0 => s.push('.'),
            1 => s.push('\\'),
            2 => s.push_str(&format!("\\{:03}", if rng.chance(1, 3) { rng.range(60, 125) } else { rng.below(300) })),
            3 => s.push_str(&format!("\\{}", rng.below(100))),
            4 => s.push_str("\\."),
            5 => s.push_str("\\\\"),
            6 => s.push('é'),
            7 => s.push(' '),
            8 => s.push('*'),
            9 => {
                let len = rng.range(60, 66);
                for _ in 0..len {
                    s.push('x');
                }
            }
            _ => {
                let len = rng.range(1, 4);
                for _ in 0..len {
                    s.push(*rng.pick(b"abAB09-") as char);
                }
            }
        }
        if rng.chance(1, 2) {
            s.push('.');
        }
    }
    if rng.chance(1, 12) {
        // a long name around the 255-octet limit
        s.clear();
        let labels = rng.range(120, 130);
        for _ in 0..labels {
            s.push('a');
            s.push('.');
        }
    }
    s
}

// ---------------------------------------------------------------------
// checks
// ---------------------------------------------------------------------

fn v(rep: &mut Report, sig: &str, detail: String, names: &[&RName]) {
    rep.violation(
        format!("c16:{}", sig),
        detail,
        Json::obj(vec![(
            "names_wire",
            Json::Arr(names.iter().map(|n| Json::hex(&n.wire())).collect()),
        )]),
    );
}

fn check_single(rep: &mut Report, r: &RName) {
    rep.eval();
    let n = qname(r);
    let text = n.to_string();
    // Display -> FromStr round trip
    match text.parse::<Box<Name>>() {
        Ok(back) => {
            if back.wire_repr() != n.wire_repr() {
                v(rep, "roundtrip", format!("{} renders as {:?} which parses to {}", hex(n.wire_repr()), text, hex(back.wire_repr())), &[r]);
            }
        }
        Err(e) => v(rep, "roundtrip", format!("{} renders as {:?} which does not parse: {:?}", hex(n.wire_repr()), text, e), &[r]),
    }
    // the rendering denotes the same name for an independent parser too
    match ref_parse(&text) {
        Some(p) if p == *r => {}
        other => v(rep, "display", format!("{} renders as {:?}, which an RFC 1035 parser reads as {:?}", hex(&r.wire()), text, other.map(|p| hex(&p.wire()))), &[r]),
    }
    // reference rendering parses to the same name
    let rt = r.to_text();
    match rt.parse::<Box<Name>>() {
        Ok(back) if back.wire_repr() == r.wire().as_slice() => {}
        other => v(rep, "fromstr-ref-text", format!("text {:?} parses to {:?}, expected {}", rt, other.map(|b| hex(b.wire_repr())), hex(&r.wire())), &[r]),
    }

    // accessors
    let nl = r.n_labels();
    if n.len() != nl {
        v(rep, "len", format!("len() = {} expected {}", n.len(), nl), &[r]);
        return;
    }
    if n.is_root() != r.0.is_empty() {
        v(rep, "is_root", "is_root disagrees".into(), &[r]);
    }
    if n.is_wildcard() != r.is_wildcard() {
        v(rep, "is_wildcard", format!("is_wildcard() = {}", n.is_wildcard()), &[r]);
    }
    let expect_label = |i: usize| -> &[u8] { if i < r.0.len() { &r.0[i] } else { &[] } };
    for i in 0..nl {
        if n[i].octets() != expect_label(i) {
            v(rep, "index", format!("label {} is {}", i, hex(n[i].octets())), &[r]);
        }
    }
    let fwd: Vec<Vec<u8>> = n.labels().map(|l| l.octets().to_vec()).collect();
    let mut back: Vec<Vec<u8>> = n.labels().rev().map(|l| l.octets().to_vec()).collect();
    back.reverse();
    let mut expect: Vec<Vec<u8>> = r.0.clone();
    expect.push(Vec::new());
    if fwd != expect || back != expect || n.labels().len() != nl {
        v(rep, "labels-iter", "labels() iteration differs from the reference".into(), &[r]);
    }
    // mixed-direction iteration
    let mut it = n.labels();
    let mut seen = 0;
    loop {
        let a = it.next();
        if a.is_some() {
            seen += 1;
        }
        let b = it.next_back();
        if b.is_some() {
            seen += 1;
        }
        if a.is_none() && b.is_none() {
            break;
        }
    }
    if seen != nl {
        v(rep, "labels-iter", format!("double-ended iteration yields {} labels of {}", seen, nl), &[r]);
    }
    for k in 0..=nl + 1 {
        let got = n.superdomain(k);
        let want = if k < nl { r.parent(k) } else { None };
        match (got, want) {
            (Some(g), Some(w)) => {
                if g.wire_repr() != w.wire().as_slice() || g.len() != w.n_labels() {
                    v(rep, "superdomain", format!("superdomain({}) = {}", k, hex(g.wire_repr())), &[r]);
                }
                // the extracted name must itself be consistent
                for i in 0..g.len() {
                    let e: &[u8] = if i < w.0.len() { &w.0[i] } else { &[] };
                    if g[i].octets() != e {
                        v(rep, "superdomain-labels", format!("superdomain({}) label {} wrong", k, i), &[r]);
                    }
                }
            }
            (None, None) => {}
            (g, w) => v(rep, "superdomain", format!("superdomain({}) is_some={} expected is_some={}", k, g.is_some(), w.is_some()), &[r]),
        }
    }
    let wire = r.wire();
    let mut off = 0;
    for k in 0..=nl {
        // offset of label k in the wire form (or the end for k == nl)
        if n.wire_repr_to(k) != &wire[..off] {
            v(rep, "wire_repr_to", format!("wire_repr_to({}) wrong", k), &[r]);
        }
        if n.wire_repr_from(k) != &wire[off..] {
            v(rep, "wire_repr_from", format!("wire_repr_from({}) wrong", k), &[r]);
        }
        if k < nl {
            off += 1 + expect_label(k).len();
        }
    }
    // lowercasing
    let mut lowered = n.clone();
    lowered.make_ascii_lowercase();
    if lowered.wire_repr() != r.lower().wire().as_slice() {
        v(rep, "make_ascii_lowercase", format!("gives {}", hex(lowered.wire_repr())), &[r]);
    }
    let lc: Box<LowercaseName> = n.clone().into();
    if lc.wire_repr() != r.lower().wire().as_slice() || lc.len() != nl {
        v(rep, "LowercaseName", format!("gives {}", hex(lc.wire_repr())), &[r]);
    }
    let lc2 = lc.clone();
    let back: Box<Name> = lc2.into();
    if back.wire_repr() != r.lower().wire().as_slice() {
        v(rep, "LowercaseName-into-name", "conversion back changes the name".into(), &[r]);
    }
    if let Ok(parsed) = text.parse::<Box<LowercaseName>>() {
        if parsed.wire_repr() != r.lower().wire().as_slice() {
            v(rep, "LowercaseName-fromstr", "FromStr does not lowercase".into(), &[r]);
        }
    }
    // clone / to_owned keep everything
    let c = n.as_ref().to_owned();
    if c.wire_repr() != n.wire_repr() || c.len() != n.len() {
        v(rep, "to_owned", "clone differs".into(), &[r]);
    }
    rep.class(&format!(
        "single:l{}:w{}:wild{}:esc{}",
        nl.min(8).max(if nl >= 127 { 127 } else { 0 }),
        wire.len() / 32,
        r.is_wildcard(),
        text.contains('\\')
    ));
}

fn sign(o: Ordering) -> i8 {
    match o {
        Ordering::Less => -1,
        Ordering::Equal => 0,
        Ordering::Greater => 1,
    }
}

fn check_pair(rep: &mut Report, ra: &RName, rb: &RName) {
    rep.eval();
    let a = qname(ra);
    let b = qname(rb);
    let eq = a == b;
    let want_eq = ra.eq_ci(rb);
    if eq != want_eq || (b == a) != want_eq {
        v(rep, "eq", format!("{} == {} is {}, reference {}", ra.debug(), rb.debug(), eq, want_eq), &[ra, rb]);
    }
    let (ha, hb) = (hash_of(&*a), hash_of(&*b));
    if want_eq && ha != hb {
        v(rep, "hash-equal-names", format!("{} and {} are equal but hash differently", ra.debug(), rb.debug()), &[ra, rb]);
    }
    if !want_eq && ha == hb {
        v(rep, "hash-ignores-more", format!("{} and {} differ but hash identically", ra.debug(), rb.debug()), &[ra, rb]);
    }
    let c = a.cmp(&b);
    let want = ra.cmp_canonical(rb);
    if c != want {
        v(rep, "cmp", format!("cmp({}, {}) = {:?}, RFC 4034 order says {:?}", ra.debug(), rb.debug(), c, want), &[ra, rb]);
    }
    if sign(b.cmp(&a)) != -sign(c) {
        v(rep, "cmp-antisymmetry", format!("cmp({}, {}) and its converse disagree", ra.debug(), rb.debug()), &[ra, rb]);
    }
    if (c == Ordering::Equal) != eq {
        v(rep, "cmp-vs-eq", format!("cmp == Equal is {} but == is {}", c == Ordering::Equal, eq), &[ra, rb]);
    }
    if a.partial_cmp(&b) != Some(c) {
        v(rep, "partial_cmp", "partial_cmp differs from cmp".into(), &[ra, rb]);
    }
    let sub = a.eq_or_subdomain_of(&b);
    if sub != ra.is_at_or_below(rb) {
        v(rep, "eq_or_subdomain_of", format!("{}.eq_or_subdomain_of({}) = {}", ra.debug(), rb.debug(), sub), &[ra, rb]);
    }
    // LowercaseName comparisons follow Name's
    let la: Box<LowercaseName> = a.clone().into();
    let lb: Box<LowercaseName> = b.clone().into();
    if (la == lb) != want_eq || la.cmp(&lb) != want || (want_eq && hash_of(&*la) != hash_of(&*lb)) {
        v(rep, "LowercaseName-cmp", "LowercaseName eq/cmp/hash disagree with the reference".into(), &[ra, rb]);
    }
    if hash_of(&*la) != hash_of(&*a) && want_eq {
        // Borrow<Name> requires LowercaseName to hash like Name
        v(rep, "LowercaseName-hash-borrow", "LowercaseName hashes differently from the Name it borrows as".into(), &[ra]);
    }
    // label-level
    if !ra.0.is_empty() && !rb.0.is_empty() {
        let (l1, l2): (&Label, &Label) = (&a[0], &b[0]);
        let want_leq = ra.0[0].eq_ignore_ascii_case(&rb.0[0]);
        if (l1 == l2) != want_leq {
            v(rep, "label-eq", "label equality disagrees".into(), &[ra, rb]);
        }
        if l1.cmp(l2) != lower_bytes(&ra.0[0]).cmp(&lower_bytes(&rb.0[0])) {
            v(rep, "label-cmp", "label ordering disagrees".into(), &[ra, rb]);
        }
        if want_leq && hash_of(l1) != hash_of(l2) {
            v(rep, "label-hash", "equal labels hash differently".into(), &[ra, rb]);
        }
        let owned = l1.to_owned();
        if hash_of(&owned) != hash_of(l1) {
            v(rep, "labelbuf-hash", "LabelBuf hashes differently from its Label".into(), &[ra]);
        }
    }
    rep.class(&format!("pair:eq{}:cmp{}:sub{}", want_eq, sign(want), sub));
}

fn check_triple(rep: &mut Report, ra: &RName, rb: &RName, rc: &RName) {
    rep.eval();
    let (a, b, c) = (qname(ra), qname(rb), qname(rc));
    if a <= b && b <= c && !(a <= c) {
        v(rep, "cmp-transitivity", "a<=b, b<=c but not a<=c".into(), &[ra, rb, rc]);
    }
    if a == b && b == c && a != c {
        v(rep, "eq-transitivity", "a==b, b==c but a!=c".into(), &[ra, rb, rc]);
    }
    // sorting with quandary's Ord gives the reference order
    let mut q = vec![(a, ra), (b, rb), (c, rc)];
    q.sort_by(|x, y| x.0.cmp(&y.0));
    for w in q.windows(2) {
        if w[0].1.cmp_canonical(w[1].1) == Ordering::Greater {
            v(rep, "sort", "sorting by Name::cmp is not canonical order".into(), &[ra, rb, rc]);
        }
    }
}

fn check_text(rep: &mut Report, text: &str) {
    rep.eval();
    let want = ref_parse(text);
    match panicmon::catch(|| text.parse::<Box<Name>>()) {
        Err(p) => rep.violation(
            format!("c16:fromstr:{}", p.signature()),
            format!("parsing {:?} panicked at {}: {}", text, p.location, p.message),
            Json::obj(vec![("text", Json::s(text))]),
        ),
        Ok(got) => {
            match (&want, &got) {
                (Some(w), Ok(g)) => {
                    if g.wire_repr() != w.wire().as_slice() || g.len() != w.n_labels() {
                        rep.violation(
                            "c16:fromstr-value",
                            format!("{:?} parses to {}, reference {}", text, hex(g.wire_repr()), hex(&w.wire())),
                            Json::obj(vec![("text", Json::s(text))]),
                        );
                    }
                }
                (None, Err(_)) => {}
                (Some(w), Err(e)) => rep.violation(
                    "c16:fromstr-rejects-valid",
                    format!("{:?} is rejected ({:?}); reference reads {}", text, e, hex(&w.wire())),
                    Json::obj(vec![("text", Json::s(text))]),
                ),
                (None, Ok(g)) => rep.violation(
                    "c16:fromstr-accepts-invalid",
                    format!("{:?} is accepted as {} but is not an absolute name of legal size", text, hex(g.wire_repr())),
                    Json::obj(vec![("text", Json::s(text))]),
                ),
            }
            rep.class(&format!("text:{}:{}", want.is_some(), text.len().min(40) / 4));
        }
    }
    // the same text parsed straight into a LowercaseName: the lower-cased name, or the same verdict
    match panicmon::catch(|| text.parse::<Box<LowercaseName>>()) {
        Err(p) => rep.violation(format!("c16:lowercase-fromstr:{}", p.signature()), format!("parsing {:?} as LowercaseName panicked at {}: {}", text, p.location, p.message), Json::obj(vec![("text", Json::s(text))])),
        Ok(got) => match (&want, &got) {
            (Some(w), Ok(g)) => {
                if g.wire_repr() != w.lower().wire().as_slice() {
                    rep.violation("c16:lowercase-fromstr-value", format!("{:?} parses to LowercaseName {}, reference {}", text, hex(g.wire_repr()), hex(&w.lower().wire())), Json::obj(vec![("text", Json::s(text))]));
                }
            }
            (None, Err(_)) => {}
            (Some(_), Err(_)) => rep.violation("c16:lowercase-fromstr-rejects-valid", format!("{:?} is rejected as LowercaseName", text), Json::obj(vec![("text", Json::s(text))])),
            (None, Ok(_)) => rep.violation("c16:lowercase-fromstr-accepts-invalid", format!("{:?} is accepted as LowercaseName", text), Json::obj(vec![("text", Json::s(text))])),
        },
    }
}

/// NameBuilder against a model; failed operations must not change it.
fn check_builder(rep: &mut Report, rng: &mut Rng, pool: &[RName]) {
    rep.eval();
    let mut b = NameBuilder::new();
    let mut labels: Vec<Vec<u8>> = Vec::new();
    let mut cur: Vec<u8> = Vec::new();
    let mut log: Vec<String> = Vec::new();
    let wire_used = |labels: &Vec<Vec<u8>>, cur: &Vec<u8>| labels.iter().map(|l| l.len() + 1).sum::<usize>() + 1 + cur.len();
    let n_ops = rng.range(1, 40);
    let big = rng.chance(1, 4);
    for _ in 0..n_ops {
        let used = wire_used(&labels, &cur);
        match rng.below(4) {
            0 => {
                let o = rng.u8();
                let r = b.try_push(o);
                log.push(format!("push({})={}", o, r.is_ok()));
                let must_fail = cur.len() + 1 > 63 || used + 1 > 255;
                let must_succeed = cur.len() + 1 <= 63 && used + 2 <= 255;
                if r.is_ok() {
                    cur.push(o);
                }
                if (r.is_ok() && must_fail) || (r.is_err() && must_succeed) {
                    rep.violation("c16:builder-try_push", format!("try_push result {:?} with label len {} wire {}; ops {:?}", r, cur.len(), used, log), Json::Null);
                    return;
                }
            }
            1 => {
                let len = if big { rng.range(0, 70) } else { rng.range(0, 8) };
                let s: Vec<u8> = (0..len).map(|_| *rng.pick(b"abcA.\\")).collect();
                let r = b.try_push_slice(&s);
                log.push(format!("push_slice({})={}", len, r.is_ok()));
                let must_fail = cur.len() + len > 63 || used + len > 255;
                let must_succeed = cur.len() + len <= 63 && used + len + 1 <= 255;
                if r.is_ok() {
                    cur.extend_from_slice(&s);
                }
                if (r.is_ok() && must_fail) || (r.is_err() && must_succeed) {
                    rep.violation("c16:builder-try_push_slice", format!("try_push_slice result {:?}; ops {:?}", r, log), Json::Null);
                    return;
                }
            }
            2 => {
                let r = b.next_label();
                log.push(format!("next_label={}", r.is_ok()));
                let must_fail = cur.is_empty() || used + 1 > 255;
                let must_succeed = !cur.is_empty() && used + 1 <= 255;
                if r.is_ok() {
                    labels.push(std::mem::take(&mut cur));
                }
                if (r.is_ok() && must_fail) || (r.is_err() && must_succeed) {
                    rep.violation("c16:builder-next_label", format!("next_label result {:?}; ops {:?}", r, log), Json::Null);
                    return;
                }
            }
            _ => {
                let fq = b.is_fully_qualified();
                if fq != cur.is_empty() {
                    rep.violation("c16:builder-is_fully_qualified", format!("is_fully_qualified = {}; ops {:?}", fq, log), Json::Null);
                    return;
                }
            }
        }
    }
    if rng.bool() {
        let r = b.finish();
        let want = if cur.is_empty() && RName(labels.clone()).is_valid() { Some(RName(labels.clone())) } else { None };
        match (r, want) {
            (Ok(n), Some(w)) => {
                if n.wire_repr() != w.wire().as_slice() || n.len() != w.n_labels() {
                    rep.violation("c16:builder-finish-value", format!("finish gives {} expected {}; ops {:?}", hex(n.wire_repr()), hex(&w.wire()), log), Json::Null);
                }
                rep.class(&format!("builder:finish-ok:{}", w.n_labels().min(6)));
            }
            (Err(_), None) => rep.class("builder:finish-err"),
            (r, w) => rep.violation("c16:builder-finish", format!("finish ok={} expected ok={}; ops {:?}", r.is_ok(), w.is_some(), log), Json::Null),
        }
    } else {
        let suffix = gen_name(rng, pool);
        let qs = qname(&suffix);
        let r = b.finish_with_suffix(&qs);
        let want = if !cur.is_empty() {
            let mut l = labels.clone();
            l.push(cur.clone());
            l.extend(suffix.0.iter().cloned());
            let n = RName(l);
            if n.is_valid() {
                Some(n)
            } else {
                None
            }
        } else {
            None
        };
        match (r, want) {
            (Ok(n), Some(w)) => {
                let mut ok = n.wire_repr() == w.wire().as_slice() && n.len() == w.n_labels();
                if ok {
                    for i in 0..n.len() {
                        let e: &[u8] = if i < w.0.len() { &w.0[i] } else { &[] };
                        ok &= n[i].octets() == e;
                    }
                }
                if !ok {
                    rep.violation("c16:builder-suffix-value", format!("finish_with_suffix gives {} expected {}; ops {:?}", hex(n.wire_repr()), hex(&w.wire()), log), Json::Null);
                }
                rep.class(&format!("builder:suffix-ok:{}", w.n_labels().min(6)));
            }
            (Err(_), None) => rep.class("builder:suffix-err"),
            (r, w) => rep.violation("c16:builder-suffix", format!("finish_with_suffix ok={} expected ok={}; ops {:?}", r.is_ok(), w.is_some(), log), Json::Null),
        }
    }
}

fn selftest(rep: &mut Report) {
    // RFC 4034 §6.1 example order
    let order = ["example.", "a.example.", "yljkjljk.a.example.", "Z.a.example.", "zABC.a.EXAMPLE.", "z.example.", "\\001.z.example.", "*.z.example.", "\\200.z.example."];
    let names: Vec<RName> = order.iter().map(|t| ref_parse(t).expect("selftest parse")).collect();
    for w in names.windows(2) {
        if w[0].cmp_canonical(&w[1]) != Ordering::Less {
            rep.inconclusive("harness self-test failed: RFC 4034 §6.1 example order");
        }
    }
}

pub fn run(ctx: &Ctx, rep: &mut Report) {
    selftest(rep);
    let n = if ctx.is_miri() { ctx.cases(16, 640) } else { ctx.cases(60_000, 500_000) };
    for case in ctx.case_range(n) {
        rep.current_case = case;
        let mut rng = ctx.rng("c16", case);
        let mut pool: Vec<RName> = Vec::new();
        let pool_size = rng.range(2, 5);
        for _ in 0..pool_size {
            let nm = gen_name(&mut rng, &pool);
            pool.push(nm);
        }
        let r = panicmon::catch(|| {
            let local: &mut Report = rep;
            let mut rng2 = rng.clone();
            for nm in &pool {
                check_single(local, nm);
            }
            for i in 0..pool.len() {
                for j in 0..pool.len() {
                    check_pair(local, &pool[i], &pool[j]);
                }
            }
            if pool.len() >= 3 {
                check_triple(local, &pool[0], &pool[1], &pool[2]);
                check_triple(local, &pool[2], &pool[0], &pool[1]);
            }
            for _ in 0..4 {
                let t = gen_text(&mut rng2);
                check_text(local, &t);
            }
            // mutations of a valid rendering
            let mut t = pool[0].to_text().into_bytes();
            if !t.is_empty() && t.is_ascii() {
                let i = rng2.below(t.len());
                match rng2.below(3) {
                    0 => {
                        t.remove(i);
                    }
                    1 => t.insert(i, *rng2.pick(b".\\a0")),
                    _ => t[i] = *rng2.pick(b".\\a9 "),
                }
                if let Ok(s) = String::from_utf8(t) {
                    check_text(local, &s);
                }
            }
            check_builder(local, &mut rng2, &pool);
        });
        if let Err(p) = r {
            rep.violation(
                format!("c16:{}", p.signature()),
                format!("panic at {}: {}", p.location, p.message),
                Json::obj(vec![("names_wire", Json::Arr(pool.iter().map(|n| Json::hex(&n.wire())).collect()))]),
            );
        }
        if case % 500 == 1 {
            rep.sample(|| Json::obj(vec![("pool", Json::Arr(pool.iter().map(|n| Json::s(n.to_text())).collect()))]));
        }
    }
}
