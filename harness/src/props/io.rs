//! C30 — I/O providers answer each request once with correct framing.
//!
//! The real `BlockingIoProvider` / `TokioIoProvider` run in-process on
//! loopback sockets; the reference is `Server::handle_message` itself
//! called directly on the same server (no RRL, no TSIG: deterministic).

use crate::zonemodel::RRec;
use std::io::{Read, Write};
use std::net::{IpAddr, Ipv4Addr, Ipv6Addr, Shutdown, SocketAddr, TcpListener, TcpStream, UdpSocket};
use std::sync::Arc;
use std::time::{Duration, Instant};

use quandary::io::{BlockingIoConfig, BlockingIoProvider};
use quandary::server::Server;
use quandary::thread::ThreadGroup;

use crate::gen::*;
use crate::msgbuild::*;
use crate::names::RName;
use crate::reqclass::{classify, Stop};
use crate::reqgen::*;
use crate::report::{hex, Json, Report};
use crate::rng::Rng;
use crate::srv::*;
use crate::wire::*;
use crate::Ctx;

fn free_port(v6: bool) -> Option<u16> {
    let addr: SocketAddr = if v6 { SocketAddr::new(IpAddr::V6(Ipv6Addr::LOCALHOST), 0) } else { SocketAddr::new(IpAddr::V4(Ipv4Addr::LOCALHOST), 0) };
    for _ in 0..20 {
        if let Ok(l) = TcpListener::bind(addr) {
            if let Ok(a) = l.local_addr() {
                let port = a.port();
                // the UDP port of the same number must be free as well
                if UdpSocket::bind(SocketAddr::new(addr.ip(), port)).is_ok() {
                    return Some(port);
                }
            }
        }
    }
    None
}

enum Running {
    Blocking(Arc<ThreadGroup>),
    #[cfg(feature = "tokio-io")]
    Tokio(tokio::runtime::Runtime, quandary::io::TokioShutdownController),
}

struct Instance {
    server: Arc<Server<QCatalog>>,
    running: Option<Running>,
    connect_addr: SocketAddr,
    payload: u16,
    names: Vec<RName>,
    kind: String,
}

fn start_instance(rng: &mut Rng, tokio_provider: bool) -> Result<Instance, String> {
    let opts = CatalogOpts { zone: ZoneOpts { max_records: 12, hostile: false, bulky: rng.chance(1, 3) }, max_zones: 2, allow_unloaded: true, classes: vec![C_IN, C_CH] };
    let mut built = gen_catalog(rng, &opts);
    let mut names = interesting_names(rng, &built.reference);
    // every instance also serves one zone with a 50 KiB TXT RRset (for the back-pressure batch)
    {
        let apex = RName::simple("bp.");
        let mut recs = vec![
            RRec { owner: apex.clone(), rtype: T_SOA, class: C_IN, ttl: 60, rdata: crate::gen::soa_rdata(&apex.child(b"ns"), &apex.child(b"hm"), 1, 60) },
            RRec { owner: apex.clone(), rtype: T_NS, class: C_IN, ttl: 60, rdata: RName::simple("ns.elsewhere.").wire() },
        ];
        for i in 0..200u8 {
            let mut rd = vec![250u8];
            rd.extend(std::iter::repeat(b'a' + (i % 26)).take(249));
            rd.push(i);
            recs.push(RRec { owner: apex.child(b"big"), rtype: T_TXT, class: C_IN, ttl: 60, rdata: rd });
        }
        let (_, qz, _) = crate::gen::build_zone(&apex, C_IN, &recs);
        built.catalog.insert(quandary::db::catalog::Entry::Loaded(Arc::new(qz), 9_999));
        names.push(apex.child(b"big"));
    }
    let payload = *rng.pick(&[512u16, 1232, 4096]);
    let server = Arc::new(make_server(Arc::new(built.catalog), &ServerCfg { payload, rrl: None, keys: vec![] }));
    let v6 = rng.chance(1, 3);
    let wildcard_bind = rng.bool();
    for _attempt in 0..5 {
        let port = free_port(v6).ok_or("no free loopback port")?;
        let loopback: IpAddr = if v6 { IpAddr::V6(Ipv6Addr::LOCALHOST) } else { IpAddr::V4(Ipv4Addr::LOCALHOST) };
        let bind_ip: IpAddr = if wildcard_bind {
            if v6 {
                IpAddr::V6(Ipv6Addr::UNSPECIFIED)
            } else {
                IpAddr::V4(Ipv4Addr::UNSPECIFIED)
            }
        } else {
            loopback
        };
        let bind_addr = SocketAddr::new(bind_ip, port);
        let connect_addr = SocketAddr::new(loopback, port);
        if tokio_provider {
            #[cfg(feature = "tokio-io")]
            {
                let rt = tokio::runtime::Builder::new_multi_thread().worker_threads(2).enable_all().build().map_err(|e| e.to_string())?;
                let provider = rt.block_on(quandary::io::TokioIoProvider::bind([bind_addr], [bind_addr]));
                match provider {
                    Ok(p) => {
                        let controller = rt.block_on(async { p.start(&server) });
                        return Ok(Instance { server, running: Some(Running::Tokio(rt, controller)), connect_addr, payload, names, kind: format!("tokio:{}:{}", if v6 { "v6" } else { "v4" }, if wildcard_bind { "any" } else { "lo" }) });
                    }
                    Err(_) => continue,
                }
            }
            #[cfg(not(feature = "tokio-io"))]
            {
                return Err("built without the Tokio provider".into());
            }
        } else {
            let config = BlockingIoConfig { tcp_base_workers: *rng.pick(&[0usize, 1, 4]), tcp_worker_linger: Duration::from_millis(*rng.pick(&[0u64, 1000])), udp_workers_per_socket: rng.range(1, 2) };
            let desc = format!("blocking:w{}:l{}:u{}:{}:{}", config.tcp_base_workers, config.tcp_worker_linger.as_millis(), config.udp_workers_per_socket, if v6 { "v6" } else { "v4" }, if wildcard_bind { "any" } else { "lo" });
            match BlockingIoProvider::bind(config, [bind_addr], [bind_addr]) {
                Ok(p) => {
                    let group = ThreadGroup::new();
                    p.start(&server, &group).map_err(|e| format!("start: {}", e))?;
                    return Ok(Instance { server, running: Some(Running::Blocking(group)), connect_addr, payload, names, kind: desc });
                }
                Err(_) => continue,
            }
        }
    }
    Err("could not bind the provider to a loopback port".into())
}

impl Instance {
    /// Shuts the provider down; returns false if it did not finish.
    fn stop(&mut self) -> bool {
        match self.running.take() {
            Some(Running::Blocking(group)) => {
                group.shut_down();
                let (tx, rx) = std::sync::mpsc::channel();
                let g = group.clone();
                std::thread::spawn(move || {
                    g.await_shutdown();
                    let _ = tx.send(());
                });
                rx.recv_timeout(Duration::from_secs(30)).is_ok()
            }
            #[cfg(feature = "tokio-io")]
            Some(Running::Tokio(rt, controller)) => {
                let r = rt.block_on(async { tokio::time::timeout(Duration::from_secs(30), controller.shut_down()).await.is_ok() });
                rt.shutdown_timeout(Duration::from_secs(5));
                r
            }
            None => true,
        }
    }
}

#[derive(Clone)]
struct BatchItem {
    request: Vec<u8>,
    expected: Option<Vec<u8>>,
}

fn gen_item(rng: &mut Rng, inst: &Instance, id: u16, tcp: bool, bufs: &mut Buffers, allow_silent: bool) -> BatchItem {
    let mut spec = gen_query(rng, &inst.names, &[C_IN, C_IN, C_CH], (1, 3));
    spec.id = id;
    let (base, layout) = encode(&spec);
    let mut req = match rng.below(10) {
        0 | 1 => {
            let mut m = gen_hostile(rng, &base, &layout);
            if m.len() >= 2 {
                m[0..2].copy_from_slice(&id.to_be_bytes());
            }
            m
        }
        2 if allow_silent => {
            // a request that gets no response
            match rng.below(3) {
                0 => {
                    let mut m = base.clone();
                    m[2] |= 0x80; // QR
                    m
                }
                1 => base[..rng.below(12)].to_vec(),
                _ => {
                    let mut m = base.clone();
                    m[4..6].copy_from_slice(&2u16.to_be_bytes());
                    m
                }
            }
        }
        _ => base,
    };
    if tcp && rng.chance(1, 14) {
        // a request padded to a boundary length, up to the largest a length prefix can announce
        // (trailing octets: the response is a FORMERR, but a response there must be)
        let target = *rng.pick(&[65535usize, 65535, 65534, 65533, 65532, 32768, 16384, 16383, 4096]);
        if req.len() < target {
            let fill = rng.u8();
            req.resize(target, fill);
        }
    }
    if !tcp && req.len() > inst.payload as usize {
        req.truncate(inst.payload as usize);
    }
    if req.len() > 65535 {
        req.truncate(65535);
    }
    let src = IpAddr::V4(Ipv4Addr::LOCALHOST);
    let expected = handle(&inst.server, &req, src, tcp, bufs).unwrap_or(None);
    BatchItem { request: req, expected }
}

/// One TCP connection: returns Ok(class) or Err((signature, detail)).
fn tcp_batch(rng: &mut Rng, inst: &Instance, bufs: &mut Buffers) -> Result<String, (String, String, Json)> {
    let n = rng.range(1, 20);
    let silent_at = if rng.chance(1, 2) { Some(if rng.chance(2, 3) { n - 1 } else { rng.below(n) }) } else { None };
    let mut items = Vec::new();
    for i in 0..n {
        let mut it = gen_item(rng, inst, 0x4000 + i as u16, true, bufs, false);
        if Some(i) == silent_at {
            it = loop {
                let c = gen_item(rng, inst, 0x4000 + i as u16, true, bufs, true);
                if c.expected.is_none() {
                    break c;
                }
            };
        }
        items.push(it);
    }
    let mut stream_out = Vec::new();
    for it in &items {
        stream_out.extend_from_slice(&(it.request.len() as u16).to_be_bytes());
        stream_out.extend_from_slice(&it.request);
    }
    let mut expected = Vec::new();
    let mut closes = false;
    for it in &items {
        match &it.expected {
            Some(r) => {
                expected.extend_from_slice(&(r.len() as u16).to_be_bytes());
                expected.extend_from_slice(r);
            }
            None => {
                closes = true;
                break;
            }
        }
    }
    let w = |got: &[u8]| {
        Json::obj(vec![
            ("provider", Json::s(inst.kind.clone())),
            ("requests", Json::Arr(items.iter().map(|i| Json::hex(&i.request)).collect())),
            ("expected_stream", Json::hex(&expected)),
            ("received_stream", Json::hex(got)),
        ])
    };
    let mut sock = TcpStream::connect_timeout(&inst.connect_addr, Duration::from_secs(5)).map_err(|e| ("inconclusive".to_string(), format!("connect: {}", e), Json::Null))?;
    let _ = sock.set_nodelay(true);
    let _ = sock.set_read_timeout(Some(Duration::from_secs(8)));
    let _ = sock.set_write_timeout(Some(Duration::from_secs(8)));
    // reader thread so that large pipelined batches cannot deadlock on full socket buffers
    let mut rsock = sock.try_clone().map_err(|e| ("inconclusive".to_string(), format!("clone: {}", e), Json::Null))?;
    let reader = std::thread::spawn(move || {
        let mut got = Vec::new();
        let mut buf = [0u8; 65536];
        let mut timed_out = false;
        loop {
            match rsock.read(&mut buf) {
                Ok(0) => break,
                Ok(k) => got.extend_from_slice(&buf[..k]),
                Err(e) if e.kind() == std::io::ErrorKind::WouldBlock || e.kind() == std::io::ErrorKind::TimedOut => {
                    timed_out = true;
                    break;
                }
                Err(_) => break, // reset after the server closed with unread data
            }
        }
        (got, timed_out)
    });
    // write with random segmentation
    // the property's premise is that every request arrives within the server's 5 s read timeout:
    // batches with boundary-length requests are written in large segments (tens of thousands of
    // tiny writes take longer than that on a loaded machine), and a batch whose writing took more
    // than 4 s is not judged
    let big = stream_out.len() > 20_000;
    let mode = if big { *rng.pick(&[0usize, 4, 4]) } else { rng.below(4) };
    let write_started = std::time::Instant::now();
    let mut pos = 0;
    let mut segments = 0;
    while pos < stream_out.len() {
        let seg = match mode {
            0 => stream_out.len() - pos,
            1 => 1,
            2 => rng.range(1, 3),
            4 => rng.range(4_000, 30_000),
            _ => rng.range(1, 700),
        }
        .min(stream_out.len() - pos);
        if sock.write_all(&stream_out[pos..pos + seg]).is_err() {
            break; // the server may legitimately have closed already
        }
        pos += seg;
        segments += 1;
        if mode != 0 && segments < 200 {
            match rng.below(12) {
                0 => std::thread::sleep(Duration::from_millis(rng.range(1, 50) as u64)),
                1 | 2 => std::thread::sleep(Duration::from_micros(200)),
                _ => {}
            }
        }
    }
    if !closes {
        let _ = sock.shutdown(Shutdown::Write);
    }
    let write_took = write_started.elapsed();
    let (got, timed_out) = reader.join().map_err(|_| ("inconclusive".to_string(), "reader thread failed".to_string(), Json::Null))?;
    if got != expected && write_took > Duration::from_secs(4) {
        return Err(("inconclusive".into(), "writing the batch took longer than 4 s (the server's read timeout is 5 s)".into(), Json::Null));
    }
    if timed_out {
        if got == expected {
            return Err(("tcp:connection-not-closed".into(), format!("all {} expected octets arrived but the connection was not closed within 8 s ({})", expected.len(), if closes { "after a request without response" } else { "after the client closed its side" }), w(&got)));
        }
        return Err(("inconclusive".into(), "read timed out".into(), Json::Null));
    }
    if got != expected {
        // Known finding (see known_findings.json): the providers close the socket right after a
        // request that gets no response. If the client has sent more data by then, the kernel
        // turns that close into a reset and discards responses still in the server's send queue
        // (Nagle / congestion window), so complete earlier responses can be lost. Recognised
        // only in exactly that shape: the server had to close, octets followed the
        // response-less request, and what arrived is a run of whole expected responses.
        let mut end_of_silent = 0usize;
        for it in &items {
            end_of_silent += 2 + it.request.len();
            if it.expected.is_none() {
                break;
            }
        }
        let at_boundary = {
            let mut ok = false;
            let mut off = 0usize;
            for it in &items {
                if off == got.len() {
                    ok = true;
                    break;
                }
                match &it.expected {
                    Some(r) => off += 2 + r.len(),
                    None => break,
                }
            }
            ok
        };
        if closes && end_of_silent < stream_out.len() && got.len() < expected.len() && expected.starts_with(&got) && at_boundary {
            return Err(("tcp:responses-lost-on-abortive-close".into(), format!("the server closed after a response-less request while {} more octets from the client were unread; only {} of {} expected response octets (whole responses) arrived before the reset ({} requests, write mode {})", stream_out.len() - end_of_silent, got.len(), expected.len(), n, mode), w(&got)));
        }
        let kind = if got.len() < expected.len() && expected.starts_with(&got) {
            "tcp:stream-truncated"
        } else if got.len() > expected.len() && got.starts_with(&expected) {
            "tcp:extra-octets"
        } else {
            "tcp:stream-differs"
        };
        return Err((kind.into(), format!("TCP byte stream differs from the concatenation of the length-prefixed responses: got {} octets, expected {} ({} requests, response-less at {:?}, write mode {})", got.len(), expected.len(), n, silent_at, mode), w(&got)));
    }
    Ok(format!("tcp:n{}:silent{}:mode{}", n.min(6), silent_at.map(|s| if s == n - 1 { "last" } else { "mid" }).unwrap_or("none"), mode))
}

fn udp_batch(rng: &mut Rng, inst: &Instance, bufs: &mut Buffers) -> Result<String, (String, String, Json)> {
    let v6 = inst.connect_addr.is_ipv6();
    let n_socks = rng.range(1, 3);
    let mut socks = Vec::new();
    for _ in 0..n_socks {
        let bind: SocketAddr = if v6 { SocketAddr::new(IpAddr::V6(Ipv6Addr::LOCALHOST), 0) } else { SocketAddr::new(IpAddr::V4(Ipv4Addr::LOCALHOST), 0) };
        let s = UdpSocket::bind(bind).map_err(|e| ("inconclusive".to_string(), format!("udp bind: {}", e), Json::Null))?;
        let _ = s.set_read_timeout(Some(Duration::from_millis(150)));
        socks.push(s);
    }
    let per = rng.range(1, 6);
    let mut outstanding: Vec<Vec<(u16, BatchItem, u32)>> = vec![Vec::new(); n_socks];
    for (si, s) in socks.iter().enumerate() {
        for k in 0..per {
            let id = 0x1000 + (si * 64 + k) as u16;
            let it = gen_item(rng, inst, id, false, bufs, true);
            if it.request.len() < 2 {
                continue; // no ID to match on
            }
            let _ = s.send_to(&it.request, inst.connect_addr);
            outstanding[si].push((id, it, 0));
        }
    }
    let mut received = 0usize;
    let deadline = Instant::now() + Duration::from_millis(1500);
    let mut quiet_rounds = 0;
    let mut buf = vec![0u8; 70000];
    while Instant::now() < deadline && quiet_rounds < 2 {
        let mut any = false;
        for (si, s) in socks.iter().enumerate() {
            loop {
                match s.recv_from(&mut buf) {
                    Ok((len, from)) => {
                        any = true;
                        received += 1;
                        let dg = buf[..len].to_vec();
                        let w = |extra: &str| Json::obj(vec![("provider", Json::s(inst.kind.clone())), ("datagram", Json::hex(&dg)), ("from", Json::s(from.to_string())), ("note", Json::s(extra))]);
                        if from != inst.connect_addr {
                            return Err(("udp:wrong-source".into(), format!("response came from {} instead of {}", from, inst.connect_addr), w("")));
                        }
                        if len > inst.payload as usize {
                            return Err(("udp:over-payload-size".into(), format!("datagram of {} octets exceeds the configured payload size {}", len, inst.payload), w("")));
                        }
                        if len < 2 {
                            return Err(("udp:short-datagram".into(), "datagram shorter than an ID".into(), w("")));
                        }
                        let id = u16::from_be_bytes([dg[0], dg[1]]);
                        match outstanding[si].iter_mut().find(|(i, _, _)| *i == id) {
                            None => return Err(("udp:unsolicited".into(), format!("datagram with ID {:#x} that this socket never sent", id), w(""))),
                            Some((_, it, count)) => {
                                *count += 1;
                                if *count > 1 {
                                    return Err(("udp:duplicate-response".into(), format!("second response for ID {:#x}", id), w("")));
                                }
                                match &it.expected {
                                    None => return Err(("udp:response-to-silent-request".into(), format!("response to a request that must not be answered ({})", hex(&it.request)), w(""))),
                                    Some(e) => {
                                        if *e != dg {
                                            return Err(("udp:response-differs".into(), format!("response differs from handle_message's: got {} expected {}", hex(&dg), hex(e)), w("")));
                                        }
                                    }
                                }
                            }
                        }
                    }
                    Err(_) => break,
                }
            }
        }
        if any {
            quiet_rounds = 0;
        } else {
            quiet_rounds += 1;
        }
    }
    let expected_total: usize = outstanding.iter().map(|v| v.iter().filter(|(_, it, _)| it.expected.is_some()).count()).sum();
    Ok(format!("udp:socks{}:answered{}of{}", n_socks, if received == expected_total { "all".to_string() } else { "some".to_string() }, expected_total.min(6)))
}

/// A slow but legal client: request 1 arrives in two segments 3.2 s apart (inside the 5 s allowance
/// for one message), then the connection idles 2.5 s before request 2. Each message has its own
/// allowance, so both must be answered.
fn slow_tcp(rng: &mut Rng, inst: &Instance, bufs: &mut Buffers) -> Result<String, (String, String, Json)> {
    let r1 = gen_item(rng, inst, 0x5101, true, bufs, false);
    let r2 = gen_item(rng, inst, 0x5102, true, bufs, false);
    let (e1, e2) = match (&r1.expected, &r2.expected) {
        (Some(a), Some(b)) => (a.clone(), b.clone()),
        _ => return Err(("inconclusive".into(), "slow: generated request gets no response".into(), Json::Null)),
    };
    if r1.request.len() > 2000 || r2.request.len() > 2000 {
        return Err(("inconclusive".into(), "slow: oversized request".into(), Json::Null));
    }
    let inc = |what: &str| ("inconclusive".to_string(), format!("slow: {}", what), Json::Null);
    let mut sock = TcpStream::connect_timeout(&inst.connect_addr, Duration::from_secs(5)).map_err(|_| inc("connect"))?;
    let _ = sock.set_nodelay(true);
    let _ = sock.set_read_timeout(Some(Duration::from_secs(4)));
    let mut framed1 = (r1.request.len() as u16).to_be_bytes().to_vec();
    framed1.extend_from_slice(&r1.request);
    let cut = rng.range(1, framed1.len() - 1);
    let t0 = std::time::Instant::now();
    sock.write_all(&framed1[..cut]).map_err(|_| inc("write"))?;
    std::thread::sleep(Duration::from_millis(3200));
    sock.write_all(&framed1[cut..]).map_err(|_| inc("write"))?;
    let t1 = t0.elapsed();
    let read_exact = |sock: &mut TcpStream, n: usize| -> Result<Vec<u8>, String> {
        let mut v = vec![0u8; n];
        let mut got = 0;
        while got < n {
            match sock.read(&mut v[got..]) {
                Ok(0) => return Err(format!("connection closed after {} of {} octets", got, n)),
                Ok(k) => got += k,
                Err(e) => return Err(format!("read error after {} of {} octets: {}", got, n, e)),
            }
        }
        Ok(v)
    };
    let w = |what: &str| Json::obj(vec![("provider", Json::s(inst.kind.clone())), ("request_1", Json::hex(&r1.request)), ("request_2", Json::hex(&r2.request)), ("what", Json::s(what))]);
    if t1 > Duration::from_millis(4300) {
        return Err(inc("the first request took too long to write"));
    }
    let mut want1 = (e1.len() as u16).to_be_bytes().to_vec();
    want1.extend_from_slice(&e1);
    match read_exact(&mut sock, want1.len()) {
        Ok(got) if got == want1 => {}
        Ok(_) => return Err(("tcp:slow:response-differs".into(), "response to a request delivered in two segments 3.2 s apart differs".into(), w("first"))),
        Err(e) => return Err(("tcp:slow:first-unanswered".into(), format!("request delivered in two segments {:.1} s apart (read timeout 5 s): {}", t1.as_secs_f64(), e), w("first"))),
    }
    let idle_from = std::time::Instant::now();
    std::thread::sleep(Duration::from_millis(2500));
    let mut framed2 = (r2.request.len() as u16).to_be_bytes().to_vec();
    framed2.extend_from_slice(&r2.request);
    let write2 = sock.write_all(&framed2);
    let idle = idle_from.elapsed();
    if idle > Duration::from_millis(4300) {
        return Err(inc("the idle period overshot"));
    }
    let mut want2 = (e2.len() as u16).to_be_bytes().to_vec();
    want2.extend_from_slice(&e2);
    if write2.is_err() {
        return Err(("tcp:slow:second-unanswered".into(), format!("the connection was gone after {:.1} s of idling (each message has its own 5 s allowance)", idle.as_secs_f64()), w("second")));
    }
    match read_exact(&mut sock, want2.len()) {
        Ok(got) if got == want2 => Ok("tcp:slow".into()),
        Ok(_) => Err(("tcp:slow:response-differs".into(), "response to the request after the idle period differs".into(), w("second"))),
        Err(e) => Err(("tcp:slow:second-unanswered".into(), format!("request sent after {:.1} s of idling, following a request that took {:.1} s to arrive: {}", idle.as_secs_f64(), t1.as_secs_f64(), e), w("second"))),
    }
}

/// Back-pressure: some hundred pipelined queries for a 50 KiB answer while the client does not read
/// for 1.5 s, so that several megabytes of responses pile up in the socket buffers. Every response
/// must still arrive whole and in order.
fn backpressure_tcp(inst: &Instance, bufs: &mut Buffers) -> Result<String, (String, String, Json)> {
    let inc = |what: &str| ("inconclusive".to_string(), format!("backpressure: {}", what), Json::Null);
    let mut spec = MsgSpec { id: 0x6001, ..Default::default() };
    spec.questions.push((Some(NameEnc::Plain(RName::simple("big.bp."))), T_TXT, C_IN));
    let (req, _) = encode(&spec);
    let expected_one = match handle(&inst.server, &req, IpAddr::V4(Ipv4Addr::LOCALHOST), true, bufs) {
        Ok(Some(r)) if r.len() > 20_000 => r,
        _ => return Err(inc("no large response available")),
    };
    let n = (6_000_000 / expected_one.len()).max(50);
    let mut sock = TcpStream::connect_timeout(&inst.connect_addr, Duration::from_secs(5)).map_err(|_| inc("connect"))?;
    let _ = sock.set_read_timeout(Some(Duration::from_secs(20)));
    let _ = sock.set_write_timeout(Some(Duration::from_secs(20)));
    let mut out = Vec::new();
    for _ in 0..n {
        out.extend_from_slice(&(req.len() as u16).to_be_bytes());
        out.extend_from_slice(&req);
    }
    sock.write_all(&out).map_err(|_| inc("write"))?;
    std::thread::sleep(Duration::from_millis(1500));
    let mut framed = (expected_one.len() as u16).to_be_bytes().to_vec();
    framed.extend_from_slice(&expected_one);
    let mut buf = vec![0u8; framed.len()];
    for i in 0..n {
        let mut got = 0;
        while got < buf.len() {
            match sock.read(&mut buf[got..]) {
                Ok(0) => return Err(("tcp:backpressure:closed".into(), format!("the connection was closed after {} of {} responses ({} octets into the next one)", i, n, got), Json::Null)),
                Ok(k) => got += k,
                Err(e) if e.kind() == std::io::ErrorKind::WouldBlock || e.kind() == std::io::ErrorKind::TimedOut => return Err(inc("read timed out")),
                Err(e) => return Err(("tcp:backpressure:closed".into(), format!("read error after {} of {} responses: {}", i, n, e), Json::Null)),
            }
        }
        if buf != framed {
            return Err(("tcp:backpressure:response-differs".into(), format!("response {} of {} pipelined {}-octet responses differs from the server's response to that request alone (client started reading 1.5 s late)", i, n, expected_one.len()), Json::obj(vec![("provider", Json::s(inst.kind.clone())), ("request", Json::hex(&req))])));
        }
    }
    Ok("tcp:backpressure".into())
}

/// A small pass through a real I/O provider for properties that are stated about "the response"
/// without naming an entry point (C03): the octets a client receives over TCP/UDP must be the
/// octets `handle_message` produced for that request alone, for which the property's own monitor
/// has already judged header and question.
pub fn mini(ctx: &Ctx, rep: &mut Report, prop: &str) {
    if ctx.is_miri() || ctx.only_case.is_some() {
        return;
    }
    let mut rng = ctx.rng(&format!("{}-io", prop), 0);
    let tokio_provider = cfg!(feature = "tokio-io") && ctx.shard % 2 == 1;
    let mut inst = match start_instance(&mut rng, tokio_provider) {
        Ok(i) => i,
        Err(_) => {
            rep.hist("io:provider-not-started");
            return;
        }
    };
    let mut bufs = Buffers::new(inst.payload);
    std::thread::sleep(Duration::from_millis(30));
    for _ in 0..10 {
        for tcp in [true, false] {
            rep.eval();
            let r = if tcp { tcp_batch(&mut rng, &inst, &mut bufs) } else { udp_batch(&mut rng, &inst, &mut bufs) };
            match r {
                Ok(class) => rep.class(&format!("io:{}:{}", inst.kind.split(':').next().unwrap_or(""), class)),
                Err((sig, _, _)) if sig == "inconclusive" || sig == "tcp:responses-lost-on-abortive-close" => rep.hist("io:not-judged"),
                Err((sig, detail, w)) => rep.violation(format!("{}:io:{}:{}", prop, inst.kind.split(':').next().unwrap_or(""), sig), format!("through the I/O provider: {} [{}]", detail, inst.kind), w),
            }
        }
    }
    let _ = inst.stop();
}

pub fn run(ctx: &Ctx, rep: &mut Report) {
    let instances = ctx.cases(32, 96);
    let batches = if ctx.thorough { 60 } else { 12 };
    for case in ctx.case_range(instances) {
        rep.current_case = case;
        let mut rng = ctx.rng("c30", case);
        let tokio_provider = cfg!(feature = "tokio-io") && case % 2 == 1;
        let mut inst = match start_instance(&mut rng, tokio_provider) {
            Ok(i) => i,
            Err(e) => {
                rep.inconclusive(format!("provider could not be started: {}", e));
                continue;
            }
        };
        let mut bufs = Buffers::new(inst.payload);
        std::thread::sleep(Duration::from_millis(30));
        if case < 2 && ctx.only_case.is_none() || ctx.only_case == Some(case) && case < 2 {
            // one slow client per provider kind and shard (about 6 s of real time)
            rep.eval();
            match slow_tcp(&mut rng, &inst, &mut bufs) {
                Ok(class) => {
                    rep.class(&format!("{}:{}", inst.kind.split(':').next().unwrap_or(""), class));
                    rep.hist(&format!("{}:slow-clients", inst.kind.split(':').next().unwrap_or("")));
                }
                Err((sig, detail, w)) => {
                    if sig == "inconclusive" {
                        rep.hist(&format!("inconclusive:{}", detail.split(':').next().unwrap_or("")));
                    } else {
                        rep.violation(format!("c30:{}:{}", inst.kind.split(':').next().unwrap_or(""), sig), format!("{} [{}]", detail, inst.kind), w);
                    }
                }
            }
        }
        if case < 2 && ctx.shard % 4 == 1 {
            // one back-pressure batch per provider kind in every fourth shard (about 6 MB each)
            rep.eval();
            match backpressure_tcp(&inst, &mut bufs) {
                Ok(class) => {
                    rep.class(&format!("{}:{}", inst.kind.split(':').next().unwrap_or(""), class));
                    rep.hist(&format!("{}:backpressure-batches", inst.kind.split(':').next().unwrap_or("")));
                }
                Err((sig, detail, w)) => {
                    if sig == "inconclusive" {
                        rep.hist(&format!("inconclusive:{}", detail.split(':').next().unwrap_or("")));
                    } else {
                        rep.violation(format!("c30:{}:{}", inst.kind.split(':').next().unwrap_or(""), sig), format!("{} [{}]", detail, inst.kind), w);
                    }
                }
            }
        }
        for _ in 0..batches {
            for tcp in [true, false] {
                rep.eval();
                let r = if tcp { tcp_batch(&mut rng, &inst, &mut bufs) } else { udp_batch(&mut rng, &inst, &mut bufs) };
                match r {
                    Ok(class) => {
                        rep.class(&format!("{}:{}", inst.kind.split(':').next().unwrap_or(""), class));
                        rep.hist(&format!("{}:{}", inst.kind.split(':').next().unwrap_or(""), if tcp { "tcp-batches" } else { "udp-batches" }));
                    }
                    Err((sig, detail, w)) => {
                        if sig == "inconclusive" {
                            rep.hist(&format!("inconclusive:{}", detail.split(':').next().unwrap_or("")));
                        } else {
                            rep.violation(format!("c30:{}:{}", inst.kind.split(':').next().unwrap_or(""), sig), format!("{} [{}]", detail, inst.kind), w);
                        }
                    }
                }
            }
        }
        if !inst.stop() {
            rep.violation(format!("c30:{}:shutdown-hangs", inst.kind.split(':').next().unwrap_or("")), format!("provider did not shut down within 30 s [{}]", inst.kind), Json::Null);
            break;
        }
        if case % 8 == 0 {
            rep.sample(|| Json::obj(vec![("provider", Json::s(inst.kind.clone())), ("batches", Json::Int(batches as i128 * 2))]));
        }
    }
}
