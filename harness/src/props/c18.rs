//! C18 — RDATA validation, reading and writing are mutually consistent.

use quandary::class::Class;
use quandary::message::writer::{CompressionMode, Hint, HintedName};
use quandary::message::{Qclass, Qtype, Question, Reader, Writer};
use quandary::name::Name;
use quandary::rr::{Rdata, Ttl, Type};

use crate::names::RName;
use crate::panicmon;
use crate::props::c16::gen_name;
use crate::rdataref as rr;
use crate::report::{hex, Json, Report};
use crate::rng::Rng;
use crate::wire::*;
use crate::Ctx;

fn small_name(rng: &mut Rng, pool: &[RName]) -> RName {
    if rng.chance(1, 5) {
        gen_name(rng, pool)
    } else {
        let mut n = rng.pick(pool).clone();
        if rng.chance(1, 3) {
            let labels: [&[u8]; 4] = [b"a", b"B", b"*", b"www"];
            n = n.child(*rng.pick(&labels));
        }
        if rng.chance(1, 4) {
            for l in n.0.iter_mut() {
                for c in l.iter_mut() {
                    if rng.bool() && c.is_ascii_alphabetic() {
                        *c ^= 0x20;
                    }
                }
            }
        }
        if n.is_valid() {
            n
        } else {
            rng.pick(pool).clone()
        }
    }
}

fn base_pool(rng: &mut Rng) -> Vec<RName> {
    let mut pool = vec![RName::simple("example.test."), RName::simple("a.example.test."), RName::simple("Example.TEST."), RName::root()];
    for _ in 0..2 {
        let n = gen_name(rng, &pool);
        pool.push(n);
    }
    pool
}

fn wit(class: u16, rtype: u16, rdata: &[u8]) -> Json {
    Json::obj(vec![("class", Json::Int(class as i128)), ("type", Json::Int(rtype as i128)), ("rdata", Json::hex(rdata))])
}

/// (1) validate() accepts exactly what the reference accepts.
fn check_validate(rep: &mut Report, class: u16, rtype: u16, rdata: &[u8]) {
    rep.eval();
    let want = rr::valid(class, rtype, rdata);
    let r: &Rdata = match rdata.try_into() {
        Ok(r) => r,
        Err(_) => return,
    };
    match panicmon::catch(|| r.validate(Class::from(class), Type::from(rtype))) {
        Err(p) => rep.violation(
            format!("c18:validate:{}", p.signature()),
            format!("validate panicked at {}: {} (class {} type {} rdata {})", p.location, p.message, class, rtype, hex(rdata)),
            wit(class, rtype, rdata),
        ),
        Ok(got) => {
            if got.is_ok() != want {
                rep.violation(
                    format!("c18:validate:{}:type{}", if want { "rejects-valid" } else { "accepts-invalid" }, rtype),
                    format!("class {} type {} rdata {}: validate -> {:?}, reference says valid={}", class, rtype, hex(rdata), got, want),
                    wit(class, rtype, rdata),
                );
            }
            rep.class(&format!("validate:{}:{}:{}", class, rtype, want));
        }
    }
}

/// (2) Rdata::read at arbitrary (cursor, rdlength).
fn check_read(rep: &mut Report, msg: &[u8], class: u16, rtype: u16, cursor: usize, rdlength: u16) {
    rep.eval();
    let want = rr::ref_read(msg, class, rtype, cursor, rdlength as usize);
    let w = || {
        Json::obj(vec![
            ("message", Json::hex(msg)),
            ("class", Json::Int(class as i128)),
            ("type", Json::Int(rtype as i128)),
            ("cursor", Json::Int(cursor as i128)),
            ("rdlength", Json::Int(rdlength as i128)),
        ])
    };
    match panicmon::catch(|| Rdata::read(Class::from(class), Type::from(rtype), msg, cursor, rdlength).map(|c| c.octets().to_vec())) {
        Err(p) => rep.violation(
            format!("c18:read:{}", p.signature()),
            format!("Rdata::read panicked at {}: {} (type {} cursor {} rdlength {} message {})", p.location, p.message, rtype, cursor, rdlength, hex(msg)),
            w(),
        ),
        Ok(got) => {
            match (&want, &got) {
                (Some(wv), Ok(g)) => {
                    if wv != g {
                        rep.violation(format!("c18:read:value:type{}", rtype), format!("type {}: read gives {}, reference {}", rtype, hex(g), hex(wv)), w());
                    }
                    if !rr::valid(class, rtype, g) {
                        rep.violation(format!("c18:read:unvalidated:type{}", rtype), format!("type {}: read returned RDATA {} that is not valid", rtype, hex(g)), w());
                    }
                }
                (None, Err(_)) => {}
                (Some(wv), Err(e)) => rep.violation(
                    format!("c18:read:rejects-valid:type{}", rtype),
                    format!("type {} cursor {} rdlength {}: read fails ({:?}) but the reference reads {}", rtype, cursor, rdlength, e, hex(wv)),
                    w(),
                ),
                (None, Ok(g)) => rep.violation(
                    format!("c18:read:accepts-invalid:type{}", rtype),
                    format!("type {} cursor {} rdlength {}: read returns {} but the reference rejects", rtype, cursor, rdlength, hex(g)),
                    w(),
                ),
            }
            rep.class(&format!("read:{}:{}:{}", class, rtype, want.is_some()));
        }
    }
}

/// Builds a message by hand that contains records of the given type,
/// with names compressed against earlier names.
fn build_message(rng: &mut Rng, pool: &[RName], class: u16, rtype: u16) -> (Vec<u8>, Vec<(usize, usize)>) {
    let mut msg = rng.bytes(12);
    let mut targets: Vec<(usize, RName)> = Vec::new(); // (offset, suffix name starting there)
    let mut spans = Vec::new();
    let put_name = |msg: &mut Vec<u8>, targets: &mut Vec<(usize, RName)>, n: &RName, rng: &mut Rng, compress: bool| {
        // try to find a suffix already written
        let mut labels_written = 0;
        for skip in 0..=n.0.len() {
            let suffix = n.parent(skip).unwrap();
            if compress && !suffix.0.is_empty() {
                if let Some((off, _)) = targets.iter().find(|(o, t)| t == &suffix && *o < 0x3fff) {
                    if rng.chance(3, 4) {
                        let off = *off;
                        msg.push(0xc0 | (off >> 8) as u8);
                        msg.push(off as u8);
                        return;
                    }
                }
            }
            if skip < n.0.len() {
                targets.push((msg.len(), suffix));
                let l = &n.0[skip];
                msg.push(l.len() as u8);
                msg.extend_from_slice(l);
                labels_written += 1;
            }
        }
        let _ = labels_written;
        msg.push(0);
    };
    let n_records = rng.range(1, 4);
    for _ in 0..n_records {
        let owner = small_name(rng, pool);
        put_name(&mut msg, &mut targets, &owner, rng, true);
        msg.extend_from_slice(&rtype.to_be_bytes());
        msg.extend_from_slice(&class.to_be_bytes());
        msg.extend_from_slice(&rng.u32().to_be_bytes());
        let rdlen_at = msg.len();
        msg.extend_from_slice(&[0, 0]);
        let start = msg.len();
        if let Some((prefix, n, suffix)) = rr::name_layout(class, rtype) {
            msg.extend(rng.bytes(prefix));
            for _ in 0..n {
                let nm = small_name(rng, pool);
                put_name(&mut msg, &mut targets, &nm, rng, true);
            }
            msg.extend(rng.bytes(suffix));
        } else {
            let mut f = |r: &mut Rng| small_name(r, pool);
            let rd = rr::gen_valid(rng, class, rtype, &mut f);
            msg.extend(rd);
        }
        let len = msg.len() - start;
        msg[rdlen_at..rdlen_at + 2].copy_from_slice(&(len as u16).to_be_bytes());
        spans.push((start, len));
    }
    (msg, spans)
}

/// (3) write with the Writer, read back with the Reader.
fn check_write_read(rep: &mut Report, rng: &mut Rng, pool: &[RName]) {
    let mode = *rng.pick(&[CompressionMode::Standard, CompressionMode::CasePreserving, CompressionMode::Disabled]);
    // one round trip in eight is a large message: a padding record puts the records under test
    // around offset 16384, beyond which names can no longer be compression targets
    let around_16k = rng.chance(1, 8);
    let mut buf = vec![0u8; if around_16k { 40_000 } else { 4096 }];
    let mut records: Vec<(RName, u16, u16, Vec<u8>)> = Vec::new();
    let n = if around_16k { rng.range(3, 8) } else { rng.range(1, 6) };
    for _ in 0..n {
        let (class, rtype) = *rng.pick(rr::GEN_TYPES);
        if rtype == T_OPT || rtype == T_TSIG {
            continue;
        }
        let mut f = |r: &mut Rng| small_name(r, pool);
        let rd = rr::gen_valid(rng, class, rtype, &mut f);
        records.push((small_name(rng, pool), class, rtype, rd));
    }
    let qname_r = small_name(rng, pool);
    // a third of the messages get a tight size limit: some records then fail with Truncation in the
    // middle of their RDATA (whether that was necessary is C12's subject) and the records written
    // after a failed one must still read back as the RDATA given
    let limit = if around_16k { 40_000 } else if rng.chance(1, 3) { rng.range(40, 400) } else { 4096 };
    if around_16k {
        // header 12 + question + root owner 1 + fixed 10 + RDATA = offset of the next record
        let target = 16384 - rng.below(48);
        let used = 12 + qname_r.wire_len() + 4 + 11;
        records.insert(0, (RName::root(), C_IN, 99u16, vec![0u8; target - used]));
    }
    let result = panicmon::catch(|| {
        let mut w = Writer::new(&mut buf, limit).unwrap();
        w.set_compression_mode(mode);
        let q = Question {
            qname: Name::try_from_uncompressed_all(&qname_r.wire()).unwrap(),
            qtype: Qtype::from(1),
            qclass: Qclass::from(1),
        };
        let _ = w.add_question(&q);
        let mut written = Vec::new();
        for (owner, class, rtype, rd) in &records {
            let o = Name::try_from_uncompressed_all(&owner.wire()).unwrap();
            let rdata: &Rdata = rd.as_slice().try_into().unwrap();
            let r = w.add_answer_rr(HintedName::new(Hint::None, &o), Type::from(*rtype), Class::from(*class), Ttl::from(300), rdata, None);
            written.push(r.is_ok());
        }
        let len = w.finish();
        (len, written)
    });
    let (len, written) = match result {
        Ok(x) => x,
        Err(p) => {
            rep.violation(format!("c18:writer:{}", p.signature()), format!("writing valid RDATA panicked at {}: {}", p.location, p.message), Json::Null);
            return;
        }
    };
    let msg = &buf[..len];
    let read_back = panicmon::catch(|| {
        let mut r = Reader::try_from(msg).unwrap();
        if r.qdcount() > 0 {
            r.read_question().map_err(|e| format!("{:?}", e))?;
        }
        let mut out = Vec::new();
        for _ in 0..r.ancount() {
            let rr = r.read_rr().map_err(|e| format!("{:?}", e))?;
            out.push((rr.owner.wire_repr().to_vec(), u16::from(rr.rr_type), u16::from(rr.class), rr.rdata.octets().to_vec()));
        }
        Ok::<_, String>(out)
    });
    let expected: Vec<&(RName, u16, u16, Vec<u8>)> = records.iter().zip(written.iter()).filter(|(_, w)| **w).map(|(r, _)| r).collect();
    for (rec, ok) in records.iter().zip(written.iter()) {
        rep.eval();
        if !ok && limit >= 4096 {
            rep.violation(
                format!("c18:writer-rejects-valid:type{}", rec.2),
                format!("writer refused valid RDATA {} of class {} type {}", hex(&rec.3), rec.1, rec.2),
                wit(rec.1, rec.2, &rec.3),
            );
        }
    }
    match read_back {
        Err(p) => rep.violation(format!("c18:reader:{}", p.signature()), format!("reading back panicked at {}: {} (message {})", p.location, p.message, hex(msg)), Json::obj(vec![("message", Json::hex(msg))])),
        Ok(Err(e)) => rep.violation("c18:roundtrip:unreadable", format!("message written from valid RDATA cannot be read back: {} (message {})", e, hex(msg)), Json::obj(vec![("message", Json::hex(msg))])),
        Ok(Ok(got)) => {
            if got.len() != expected.len() {
                rep.violation("c18:roundtrip:count", format!("{} records written, {} read", expected.len(), got.len()), Json::obj(vec![("message", Json::hex(msg))]));
                return;
            }
            for (g, e) in got.iter().zip(expected.iter()) {
                let exact = !matches!(mode, CompressionMode::Standard);
                let same = if exact {
                    g.3 == e.3 && g.0 == e.0.wire()
                } else {
                    rr::canon(e.1, e.2, &g.3) == rr::canon(e.1, e.2, &e.3) && RName::from_wire_all(&g.0).map_or(false, |n| n.eq_ci(&e.0))
                };
                if !same || g.1 != e.2 || g.2 != e.1 {
                    rep.violation(
                        format!("c18:roundtrip:value:type{}", e.2),
                        format!("mode {:?}: class {} type {} RDATA {} reads back as {} (message {})", mode, e.1, e.2, hex(&e.3), hex(&g.3), hex(msg)),
                        Json::obj(vec![("message", Json::hex(msg))]),
                    );
                }
                rep.class(&format!("roundtrip:{:?}:{}:{}", mode, e.1, e.2));
            }
        }
    }
}

pub fn run(ctx: &Ctx, rep: &mut Report) {
    let n = if ctx.is_miri() { ctx.cases(24, 960) } else { ctx.cases(40_000, 400_000) };
    for case in ctx.case_range(n) {
        rep.current_case = case;
        let mut rng = ctx.rng("c18", case);
        let pool = base_pool(&mut rng);
        // (1) validation on valid and near-valid RDATA
        for _ in 0..4 {
            let (class, rtype) = *rng.pick(rr::GEN_TYPES);
            let mut f = |r: &mut Rng| small_name(r, &pool);
            let valid = rr::gen_valid(&mut rng, class, rtype, &mut f);
            check_validate(rep, class, rtype, &valid);
            // the same octets judged in another class: class-specific formats (IN SRV, IN A/AAAA/WKS,
            // CH A) apply in that class only, the RFC 1035 name types in every class
            let other_class = *rng.pick(&[C_IN, C_CH, C_HS, 254u16, 255, 0, 65280]);
            check_validate(rep, other_class, rtype, &valid);
            let m = rr::mutate(&mut rng, &valid);
            check_validate(rep, class, rtype, &m);
            let m2 = rr::mutate(&mut rng, &m);
            check_validate(rep, class, rtype, &m2);
            if rng.chance(1, 6) {
                let len = rng.below(30);
                let junk = rng.bytes(len);
                check_validate(rep, class, rtype, &junk);
            }
        }
        // (2) reading at arbitrary positions
        let (class, rtype) = *rng.pick(rr::GEN_TYPES);
        let (mut msg, spans) = build_message(&mut rng, &pool, class, rtype);
        for (start, len) in &spans {
            check_read(rep, &msg, class, rtype, *start, *len as u16);
            // neighbouring lengths and cursors
            let l2 = (*len as i64 + *rng.pick(&[-2i64, -1, 1, 2])).max(0) as u16;
            check_read(rep, &msg, class, rtype, *start, l2);
            let c2 = (*start as i64 + *rng.pick(&[-1i64, 1, 2])).max(0) as usize;
            check_read(rep, &msg, class, rtype, c2, *len as u16);
            // as another type
            let (c3, t3) = *rng.pick(rr::GEN_TYPES);
            check_read(rep, &msg, c3, t3, *start, *len as u16);
            // as the same type in another class
            let c4 = *rng.pick(&[C_IN, C_CH, C_HS, 254u16, 255, 0, 65280]);
            check_read(rep, &msg, c4, rtype, *start, *len as u16);
        }
        // boundary: RDATA that ends exactly at the end of the message, zero length, beyond the end
        let end = msg.len();
        for (cursor, len) in [(end, 0u16), (end.saturating_sub(1), 1), (end.saturating_sub(2), 2), (end, 1), (end + 1, 0), (end.saturating_sub(6), 6)] {
            let (c, t) = *rng.pick(rr::GEN_TYPES);
            check_read(rep, &msg, c, t, cursor, len);
        }
        for _ in 0..3 {
            let (c, t) = *rng.pick(rr::GEN_TYPES);
            let cursor = rng.below(msg.len() + 3);
            let len = if rng.chance(1, 10) { rng.u16() } else { rng.below(40) as u16 };
            check_read(rep, &msg, c, t, cursor, len);
        }
        // damaged message
        if !msg.is_empty() {
            let i = rng.below(msg.len());
            msg[i] = *rng.pick(&[0u8, 0xc0, 0xff, 63, 64, 1]);
            for (start, len) in &spans {
                check_read(rep, &msg, class, rtype, *start, *len as u16);
            }
        }
        // (3) writer -> reader round trip
        check_write_read(rep, &mut rng, &pool);
        if case % 400 == 2 {
            rep.sample(|| Json::obj(vec![("message", Json::hex(&msg)), ("class", Json::Int(class as i128)), ("type", Json::Int(rtype as i128))]));
        }
    }
}
