//! C29 — worker pools run every accepted task exactly once and shut
//! down cleanly. Many short histories on real threads; events are
//! recorded at the client boundary into one log and checked offline.
//! Failpoints (cargo feature verif_hooks) widen the windows that exist
//! between the pool's critical sections.

use std::sync::atomic::{AtomicBool, AtomicU64, Ordering};
use std::sync::{Arc, Mutex};
use std::time::{Duration, Instant};

use quandary::thread::ThreadGroup;
use quandary::verif;

use crate::report::{Json, Report};
use crate::rng::Rng;
use crate::Ctx;

#[derive(Clone, Debug, PartialEq)]
enum Ev {
    SubmitCall(u32, bool), // id, via submit_or_spawn
    SubmitRet(u32, bool),  // id, accepted
    TaskStart(u32),
    TaskEnd(u32),
    PoolShutdownCall,
    PoolShutdownRet,
    GroupShutdownCall,
    GroupShutdownRet,
    AwaitCall,
    AwaitRet,
}

#[derive(Default)]
struct Log {
    events: Mutex<Vec<Ev>>,
}

impl Log {
    fn push(&self, e: Ev) {
        self.events.lock().unwrap().push(e);
    }
    fn snapshot(&self) -> Vec<Ev> {
        self.events.lock().unwrap().clone()
    }
    fn len(&self) -> usize {
        self.events.lock().unwrap().len()
    }
}

// failpoint policy, read by the process-wide callback
static POLICY: AtomicU64 = AtomicU64::new(0); // 0 none, 1 random sleeps, 2 targeted
static LINGER_US: AtomicU64 = AtomicU64::new(0);
static FP_SEED: AtomicU64 = AtomicU64::new(1);
static CALLBACK_INSTALLED: AtomicBool = AtomicBool::new(false);

fn install_callback() {
    if CALLBACK_INSTALLED.swap(true, Ordering::SeqCst) {
        return;
    }
    verif::set_failpoint_callback(Some(Box::new(|id| {
        match POLICY.load(Ordering::Relaxed) {
            1 => {
                let s = FP_SEED.fetch_add(0x9e3779b97f4a7c15, Ordering::Relaxed);
                let us = (s >> 40) % 300;
                if us > 60 {
                    std::thread::sleep(Duration::from_micros(us));
                } else if us > 30 {
                    std::thread::yield_now();
                }
            }
            2 => {
                // the scenario the property names: a task is being handed to a
                // lingering auxiliary worker (the submitter holds the pool lock
                // and has counted the worker as available) while the worker's
                // linger timeout expires
                if id == verif::POOL_SUBMIT_OR_SPAWN_ACCEPTED || id == verif::POOL_SUBMIT_ACCEPTED {
                    let linger = LINGER_US.load(Ordering::Relaxed);
                    std::thread::sleep(Duration::from_micros(linger + 400));
                }
            }
            _ => {}
        }
    })));
}

#[derive(Clone, Debug)]
struct Scenario {
    permanent: usize,
    linger_us: u64,
    submitters: usize,
    tasks_per_submitter: usize,
    task_us: u64,
    pool_shutdown_first: bool,
    shutdown_after_submitters: bool,
    shutdown_delay_us: u64,
    policy: u64,
    spacing_us: u64,
    /// further threads that block in await_shutdown before shutdown begins
    extra_awaiters: usize,
}

fn gen_scenario(rng: &mut Rng, miri: bool) -> Scenario {
    let policy = *rng.pick(&[0u64, 0, 1, 1, 2, 2]);
    let linger_us = *rng.pick(&[0u64, 200, 1000, 5000]);
    Scenario {
        permanent: rng.below(3),
        linger_us,
        submitters: if miri { rng.range(1, 2) } else { rng.range(1, 4) },
        tasks_per_submitter: if miri { rng.range(1, 3) } else { rng.range(1, 6) },
        task_us: *rng.pick(&[0u64, 0, 50, 300]),
        extra_awaiters: if miri { rng.below(2) } else { *rng.pick(&[0usize, 0, 1, 2, 3]) },
        pool_shutdown_first: rng.chance(1, 3),
        shutdown_after_submitters: rng.chance(2, 3),
        shutdown_delay_us: rng.below(2000) as u64,
        policy,
        // spacing between a submitter's calls, around the linger timeout
        spacing_us: match rng.below(4) {
            0 => 0,
            1 => linger_us / 2,
            2 => linger_us.saturating_sub(50),
            _ => rng.below(400) as u64,
        },
    }
}

/// Runs one history; returns the event log (or None if it got stuck).
fn run_history(sc: &Scenario) -> (Arc<Log>, bool) {
    let log = Arc::new(Log::default());
    POLICY.store(sc.policy, Ordering::Relaxed);
    LINGER_US.store(sc.linger_us, Ordering::Relaxed);
    let done = Arc::new(AtomicBool::new(false));
    let log2 = log.clone();
    let sc2 = sc.clone();
    let done2 = done.clone();
    // the history itself runs on its own thread so that a deadlock does not take the monitor with it
    std::thread::spawn(move || {
        let sc = sc2;
        let log = log2;
        let group = ThreadGroup::new();
        let pool = match group.start_pool(Some("qv".into()), sc.permanent, Duration::from_micros(sc.linger_us)) {
            Ok(p) => p,
            Err(_) => {
                done2.store(true, Ordering::SeqCst);
                return;
            }
        };
        let mut handles = Vec::new();
        for s in 0..sc.submitters {
            let pool = pool.clone();
            let log = log.clone();
            let sc = sc.clone();
            handles.push(std::thread::spawn(move || {
                for k in 0..sc.tasks_per_submitter {
                    let id = (s * 100 + k) as u32;
                    // `submit` blocks until a worker exists; without permanent workers only submit_or_spawn can make progress
                    let or_spawn = sc.permanent == 0 || (id % 3 != 0);
                    let tlog = log.clone();
                    let task_us = sc.task_us;
                    let task = move || {
                        tlog.push(Ev::TaskStart(id));
                        if task_us > 0 {
                            std::thread::sleep(Duration::from_micros(task_us));
                        }
                        tlog.push(Ev::TaskEnd(id));
                    };
                    log.push(Ev::SubmitCall(id, or_spawn));
                    let r = if or_spawn { pool.submit_or_spawn(task) } else { pool.submit(task) };
                    log.push(Ev::SubmitRet(id, r.is_ok()));
                    if sc.spacing_us > 0 {
                        std::thread::sleep(Duration::from_micros(sc.spacing_us));
                    }
                }
            }));
        }
        if sc.shutdown_after_submitters {
            for h in handles.drain(..) {
                let _ = h.join();
            }
        }
        if sc.shutdown_delay_us > 0 {
            std::thread::sleep(Duration::from_micros(sc.shutdown_delay_us));
        }
        // other parties waiting for the same shutdown (every one of them must be released)
        let mut awaiters = Vec::new();
        for _ in 0..sc.extra_awaiters {
            let g = group.clone();
            awaiters.push(std::thread::spawn(move || g.await_shutdown()));
        }
        if sc.pool_shutdown_first {
            log.push(Ev::PoolShutdownCall);
            pool.shut_down();
            log.push(Ev::PoolShutdownRet);
        }
        log.push(Ev::GroupShutdownCall);
        group.shut_down();
        log.push(Ev::GroupShutdownRet);
        log.push(Ev::AwaitCall);
        group.await_shutdown();
        log.push(Ev::AwaitRet);
        for h in handles {
            let _ = h.join();
        }
        // a waiter that is never released shows up as a history that does not finish (deadlock rule)
        for a in awaiters {
            let _ = a.join();
        }
        // a submission after shutdown has completed must be rejected
        let tlog = log.clone();
        log.push(Ev::SubmitCall(9999, true));
        let r = pool.submit_or_spawn(move || {
            tlog.push(Ev::TaskStart(9999));
            tlog.push(Ev::TaskEnd(9999));
        });
        log.push(Ev::SubmitRet(9999, r.is_ok()));
        done2.store(true, Ordering::SeqCst);
    });
    // wait for completion with a generous watchdog
    let started = Instant::now();
    while !done.load(Ordering::SeqCst) {
        if started.elapsed() > Duration::from_secs(20) {
            return (log, false);
        }
        std::thread::sleep(Duration::from_micros(200));
    }
    // keep listening briefly: nothing may happen after await_shutdown returned
    std::thread::sleep(Duration::from_millis(2));
    (log, true)
}

/// Sum of user+system CPU ticks of every thread of this process.
fn total_cpu_ticks() -> u64 {
    let mut total = 0;
    if let Ok(dir) = std::fs::read_dir("/proc/self/task") {
        for e in dir.flatten() {
            if let Ok(s) = std::fs::read_to_string(e.path().join("stat")) {
                if let Some(rest) = s.rsplit(')').next() {
                    let f: Vec<&str> = rest.split_whitespace().collect();
                    if f.len() > 13 {
                        total += f[11].parse::<u64>().unwrap_or(0) + f[12].parse::<u64>().unwrap_or(0);
                    }
                }
            }
        }
    }
    total
}

fn check_log(events: &[Ev]) -> Vec<(String, String)> {
    let mut out = Vec::new();
    let pos = |e: &Ev| events.iter().position(|x| x == e);
    let await_ret = pos(&Ev::AwaitRet);
    let group_shutdown_ret = pos(&Ev::GroupShutdownRet);
    let pool_shutdown_ret = pos(&Ev::PoolShutdownRet);
    let first_shutdown_ret = match (group_shutdown_ret, pool_shutdown_ret) {
        (Some(a), Some(b)) => Some(a.min(b)),
        (a, b) => a.or(b),
    };
    let mut ids: Vec<u32> = events.iter().filter_map(|e| if let Ev::SubmitCall(id, _) = e { Some(*id) } else { None }).collect();
    ids.sort();
    ids.dedup();
    for id in ids {
        let accepted = events.iter().find_map(|e| if let Ev::SubmitRet(i, ok) = e { if *i == id { Some(*ok) } else { None } } else { None });
        let starts: Vec<usize> = events.iter().enumerate().filter(|(_, e)| **e == Ev::TaskStart(id)).map(|(i, _)| i).collect();
        let ends: Vec<usize> = events.iter().enumerate().filter(|(_, e)| **e == Ev::TaskEnd(id)).map(|(i, _)| i).collect();
        let call = events.iter().position(|e| matches!(e, Ev::SubmitCall(i, _) if *i == id)).unwrap();
        match accepted {
            Some(true) => {
                if starts.is_empty() {
                    out.push(("accepted-task-never-ran".into(), format!("task {} was accepted but never ran", id)));
                } else if starts.len() > 1 {
                    out.push(("task-ran-twice".into(), format!("task {} ran {} times", id, starts.len())));
                }
                if let (Some(a), Some(&e)) = (await_ret, ends.first()) {
                    if e > a {
                        out.push(("task-finished-after-await".into(), format!("task {} finished after await_shutdown returned", id)));
                    }
                }
                if let (Some(a), true) = (await_ret, ends.is_empty() && !starts.is_empty()) {
                    let _ = a;
                    out.push(("task-unfinished-at-await".into(), format!("task {} had not finished when await_shutdown returned", id)));
                }
            }
            Some(false) => {
                if !starts.is_empty() {
                    out.push(("rejected-task-ran".into(), format!("task {} was rejected but ran", id)));
                }
            }
            None => {}
        }
        if let Some(s) = first_shutdown_ret {
            if call > s && accepted == Some(true) {
                out.push(("accepted-after-shutdown".into(), format!("task {} was submitted after shut_down returned and was accepted", id)));
            }
        }
    }
    if let Some(a) = await_ret {
        if events[a + 1..].iter().any(|e| matches!(e, Ev::TaskStart(_) | Ev::TaskEnd(_))) {
            out.push(("activity-after-await".into(), "a task event was recorded after await_shutdown returned".into()));
        }
    }
    out
}

fn show(events: &[Ev]) -> Json {
    Json::Arr(events.iter().map(|e| Json::s(format!("{:?}", e))).collect())
}

pub fn run(ctx: &Ctx, rep: &mut Report) {
    install_callback();
    verif::reset_failpoint_hits();
    let n = if ctx.is_miri() { ctx.cases(1, 16) } else { ctx.cases(4_000, 40_000) };
    let started_all = Instant::now();
    for case in ctx.case_range(n) {
        rep.current_case = case;
        let mut rng = ctx.rng("c29", case);
        let sc = gen_scenario(&mut rng, ctx.is_miri());
        FP_SEED.store(rng.next_u64() | 1, Ordering::Relaxed);
        let (log, finished) = run_history(&sc);
        rep.eval();
        let events = log.snapshot();
        let w = || Json::obj(vec![("scenario", Json::s(format!("{:?}", sc))), ("events", show(&events))]);
        if !finished {
            // stuck: decide between deadlock (quiescent) and slowness
            let before = (total_cpu_ticks(), log.len());
            std::thread::sleep(Duration::from_secs(6)); // > 5x every timeout in a history (linger <= 5 ms, respawn delay 1 s)
            let after = (total_cpu_ticks(), log.len());
            if after.1 == before.1 && after.0 <= before.0 + 1 {
                rep.violation("c29:deadlock", format!("history did not finish and the process is quiescent (no CPU time, no events for 6 s): {:?}", sc), w());
            } else {
                rep.inconclusive("a history exceeded its watchdog while still making progress");
            }
            // stuck threads cannot be recovered: stop this shard here
            break;
        }
        let problems = check_log(&events);
        for (sig, detail) in &problems {
            rep.violation(format!("c29:{}", sig), format!("{} (scenario {:?})", detail, sc), w());
        }
        if problems.is_empty() {
            let accepted = events.iter().filter(|e| matches!(e, Ev::SubmitRet(_, true))).count();
            let rejected = events.iter().filter(|e| matches!(e, Ev::SubmitRet(_, false))).count();
            // order signature: distinct interleavings seen
            let order: String = events.iter().map(|e| match e {
                Ev::SubmitCall(..) => 'c',
                Ev::SubmitRet(_, true) => 'a',
                Ev::SubmitRet(_, false) => 'r',
                Ev::TaskStart(_) => 's',
                Ev::TaskEnd(_) => 'e',
                Ev::PoolShutdownCall | Ev::GroupShutdownCall => 'D',
                Ev::PoolShutdownRet | Ev::GroupShutdownRet => 'd',
                Ev::AwaitCall => 'W',
                Ev::AwaitRet => 'w',
            }).collect();
            rep.class(&format!("p{}:l{}:pol{}:{}", sc.permanent, sc.linger_us, sc.policy, order));
            rep.hist(&format!("policy{}:accepted{}:rejected{}", sc.policy, accepted.min(3), rejected.min(2)));
        }
        if case % 400 == 0 {
            rep.sample(|| w());
        }
        if !ctx.is_miri() && started_all.elapsed() > Duration::from_secs(if ctx.thorough { 1500 } else { 240 }) {
            rep.hist("stopped-early:time-budget");
            break;
        }
    }
    POLICY.store(0, Ordering::Relaxed);
    let hits: Vec<(String, Json)> = verif::FAILPOINT_NAMES.iter().enumerate().map(|(i, n)| (n.to_string(), Json::Int(verif::failpoint_hits(i) as i128))).collect();
    rep.extra("hook_hits", Json::Obj(hits));
}
