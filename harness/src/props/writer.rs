//! C12 (the writer serialises exactly what it was given) and C13 (name
//! compression only emits valid, permitted pointers): one workload of
//! random Writer programs, a shadow model, and two monitors over the
//! finished message as decoded by the independent decoder W.

use quandary::class::Class;
use quandary::message::tsig::PreparedTsigRr;
use quandary::message::writer::{CompressionMode, Error as WErr, Hint, HintPointer, HintPointerVec, HintedName, Template, TsigMode};
use quandary::message::{ExtendedRcode, Opcode, Qclass, Qtype, Question, Rcode, Writer};
use quandary::name::LowercaseName;
use quandary::rr::rdata::TimeSigned;
use quandary::rr::{Rdata, RdataSetOwned, Ttl, Type};

use crate::gen::qname;
use crate::hmac::{self, Alg, Kind, TsigVars};
use crate::names::RName;
use crate::panicmon;
use crate::rdataref as rr;
use crate::report::{hex, Json, Report};
use crate::rng::Rng;
use crate::srv::qalg;
use crate::wire::*;
use crate::Ctx;

#[derive(Clone, Copy, Debug, PartialEq, Eq)]
enum Mode {
    Standard,
    CasePreserving,
    Disabled,
}

impl Mode {
    fn q(self) -> CompressionMode {
        match self {
            Mode::Standard => CompressionMode::Standard,
            Mode::CasePreserving => CompressionMode::CasePreserving,
            Mode::Disabled => CompressionMode::Disabled,
        }
    }
}

#[derive(Clone, Debug)]
struct MRec {
    owner: RName,
    rtype: u16,
    class: u16,
    ttl: u32,
    rdata: Vec<u8>,
    mode: Mode,
}

#[derive(Clone, Debug)]
struct MTsig {
    kind: Option<Kind>, // None = unsigned
    alg: Option<Alg>,
    alg_name: RName,
    key: Vec<u8>,
    prior: Vec<u8>,
    key_name: RName,
    time: u64,
    fudge: u16,
    original_id: u16,
    error: u16,
    server_time: u64,
}

impl MTsig {
    fn other(&self) -> Vec<u8> {
        if self.error == 18 {
            hmac::time48(self.server_time).to_vec()
        } else {
            Vec::new()
        }
    }
    fn rr_len(&self) -> usize {
        let mac = match self.alg {
            Some(a) if self.kind.is_some() => a.output_len(),
            _ => 0,
        };
        self.key_name.wire_len() + 10 + self.alg_name.wire_len() + 16 + mac + self.other().len()
    }
}

#[derive(Clone, Debug)]
struct Model {
    id: u16,
    qr: bool,
    opcode: u8,
    aa: bool,
    tc: bool,
    rd: bool,
    ra: bool,
    rcode: u8,
    questions: Vec<(RName, u16, u16, Mode)>,
    answers: Vec<MRec>,
    authorities: Vec<MRec>,
    additionals: Vec<MRec>,
    section: u8, // 0 question, 1 answer, 2 authority, 3 additional
    edns: Option<(u16, u8)>,
    tsig: Option<MTsig>,
    mode: Mode,
    /// bounds on the size limit in force (see DESIGN.md, C12)
    limit_lb: usize,
    limit_ub: usize,
    buf_len: usize,
    // hint bookkeeping
    first_qname: Option<RName>,
    last_owner: Option<RName>,
    last_rdata_name: Option<RName>,
    pointers: Vec<(HintPointer, RName)>,
    ever_not_disabled: bool,
    // stale hints: pointers handed out for records that were cleared or rolled back since, with
    // their numeric values; and what is known about where the records start and the cursor is
    stale: Vec<(HintPointer, usize)>,
    rr_start_known: Option<usize>,
    cursor_known: Option<usize>,
}

/// The numeric value of a hint pointer (its accessor is private; `Debug` prints it).
fn pointer_value(p: HintPointer) -> usize {
    format!("{:?}", p).chars().filter(|c| c.is_ascii_digit()).collect::<String>().parse().unwrap_or(0)
}

impl Model {
    fn reserved(&self) -> usize {
        self.edns.map_or(0, |_| 11) + self.tsig.as_ref().map_or(0, |t| t.rr_len())
    }
    /// Uncompressed size of everything accepted so far (header,
    /// questions, records), without reserved pseudo-records.
    fn uncompressed(&self) -> usize {
        let recs = |v: &Vec<MRec>| v.iter().map(|r| r.owner.wire_len() + 10 + r.rdata.len()).sum::<usize>();
        12 + self.questions.iter().map(|q| q.0.wire_len() + 4).sum::<usize>() + recs(&self.answers) + recs(&self.authorities) + recs(&self.additionals)
    }
}

const NAME_POOL: [&str; 12] = [
    "example.test.",
    "www.example.test.",
    "WWW.Example.Test.",
    "mail.example.test.",
    "a.b.example.test.",
    "A.B.EXAMPLE.TEST.",
    "test.",
    ".",
    "other.org.",
    "x.",
    "b.example.test.",
    "ns1.sub.example.test.",
];

fn pool_name(rng: &mut Rng) -> RName {
    if rng.chance(1, 30) {
        // a long name sharing the common suffix
        let mut n = RName::simple("example.test.");
        for _ in 0..3 {
            let len = rng.range(40, 63);
            let c = n.child(&vec![b'l'; len]);
            if c.is_valid() {
                n = c;
            }
        }
        return n;
    }
    RName::simple(NAME_POOL[rng.below(NAME_POOL.len())])
}

const REC_TYPES: [(u16, u16); 14] = [(C_IN, T_NS), (C_IN, T_CNAME), (C_IN, T_SOA), (C_IN, T_MX), (C_IN, T_MINFO), (C_IN, T_PTR), (C_IN, T_SRV), (C_CH, T_A), (C_IN, T_TXT), (C_IN, T_A), (C_IN, 99), (C_IN, T_MB), (C_CH, T_SRV), (C_IN, T_AAAA)];

fn gen_rdata(rng: &mut Rng, class: u16, rtype: u16) -> Vec<u8> {
    let mut f = |r: &mut Rng| pool_name(r);
    let v = rr::gen_valid(rng, class, rtype, &mut f);
    if rng.chance(1, 25) {
        rr::mutate(rng, &v)
    } else {
        v
    }
}

/// Names embedded in RDATA, in order, as the writer sees them (all
/// name-bearing types known to quandary, compressible or not).
fn rdata_names(class: u16, rtype: u16, rdata: &[u8]) -> Vec<RName> {
    rr::split_names(class, rtype, rdata).map(|(_, n, _)| n).unwrap_or_default()
}

/// Can the writer serialise this RDATA? For name-bearing types the
/// fixed prefix must be present and the embedded names must parse;
/// whatever follows is copied as opaque data.
fn writer_accepts(class: u16, rtype: u16, rd: &[u8]) -> bool {
    match rr::name_layout(class, rtype) {
        None => true,
        Some((prefix, n, _)) => {
            if rd.len() < prefix {
                return false;
            }
            let mut pos = prefix;
            for _ in 0..n {
                match RName::from_wire_uncompressed(&rd[pos..]) {
                    Some((_, len)) => pos += len,
                    None => return false,
                }
            }
            true
        }
    }
}

/// Names the writer sees in RDATA (also when a junk tail follows).
fn writer_names(class: u16, rtype: u16, rd: &[u8]) -> Vec<RName> {
    let mut out = Vec::new();
    if let Some((prefix, n, _)) = rr::name_layout(class, rtype) {
        if rd.len() >= prefix {
            let mut pos = prefix;
            for _ in 0..n {
                match RName::from_wire_uncompressed(&rd[pos..]) {
                    Some((nm, len)) => {
                        out.push(nm);
                        pos += len;
                    }
                    None => break,
                }
            }
        }
    }
    out
}

struct Outcome {
    message: Vec<u8>,
    mac: Option<Vec<u8>>,
    model: Model,
    log: Vec<String>,
    problems: Vec<(String, String)>,
}

fn kind_of(e: &WErr) -> &'static str {
    match e {
        WErr::CountOverflow => "CountOverflow",
        WErr::Truncation => "Truncation",
        WErr::OutOfOrder => "OutOfOrder",
        WErr::InvalidRdata => "InvalidRdata",
        WErr::NotEdns => "NotEdns",
        WErr::AlreadyEdns => "AlreadyEdns",
        WErr::ExtendedRcodeOverflow => "ExtendedRcodeOverflow",
        WErr::NotTsig => "NotTsig",
        WErr::AlreadyTsig => "AlreadyTsig",
        WErr::NotSignedTsig => "NotSignedTsig",
    }
}

fn run_program(rng: &mut Rng, allow_signing: bool) -> Outcome {
    let buf_len = match rng.below(8) {
        0 => rng.range(12, 80),
        1 => rng.range(80, 300),
        2 => 512,
        3 => 70_000,
        _ => rng.range(300, 2000),
    };
    let mut buf_a = vec![0x55u8; buf_len];
    let mut buf_b: Vec<u8>;
    // Large-buffer programs often begin with one padding record that puts the
    // names that follow right around offset 16384, the first offset a 14-bit
    // compression pointer cannot express.
    let mut pad: Option<usize> = if buf_len == 70_000 && rng.chance(2, 3) { Some(16384 - if rng.chance(1, 3) { rng.below(4) } else { rng.below(90) }) } else { None };
    let init_limit = if pad.is_none() && rng.chance(1, 3) { rng.range(12, buf_len + 20) } else { buf_len };
    let mut m = Model {
        id: 0,
        qr: false,
        opcode: 0,
        aa: false,
        tc: false,
        rd: false,
        ra: false,
        rcode: 0,
        questions: vec![],
        answers: vec![],
        authorities: vec![],
        additionals: vec![],
        section: 0,
        edns: None,
        tsig: None,
        mode: Mode::Standard,
        limit_lb: init_limit.min(buf_len),
        limit_ub: init_limit.min(buf_len),
        buf_len,
        first_qname: None,
        last_owner: None,
        last_rdata_name: None,
        pointers: vec![],
        ever_not_disabled: false,
        stale: Vec::new(),
        rr_start_known: None,
        cursor_known: None,
    };
    let mut log: Vec<String> = vec![format!("new(buf {}, limit {})", buf_len, init_limit)];
    let mut problems: Vec<(String, String)> = Vec::new();
    let mut w = Writer::new(&mut buf_a, init_limit).expect("writer");
    let n_ops = rng.range(1, 28);
    let start_disabled = rng.chance(1, 6);
    if start_disabled {
        w.set_compression_mode(CompressionMode::Disabled);
        m.mode = Mode::Disabled;
        log.push("set_compression_mode(Disabled)".into());
    }
    for _ in 0..n_ops {
        if m.mode != Mode::Disabled {
            m.ever_not_disabled = true;
        }
        let op = if pad.is_some() { 18 } else { rng.below(100) };
        match op {
            0..=7 => {
                // header setters
                match rng.below(8) {
                    0 => {
                        m.id = rng.u16();
                        w.set_id(m.id);
                    }
                    1 => {
                        m.qr = rng.bool();
                        w.set_qr(m.qr);
                    }
                    2 => {
                        m.opcode = rng.below(16) as u8;
                        w.set_opcode(Opcode::try_from(m.opcode).unwrap());
                    }
                    3 => {
                        m.aa = rng.bool();
                        w.set_aa(m.aa);
                    }
                    4 => {
                        m.tc = rng.bool();
                        w.set_tc(m.tc);
                    }
                    5 => {
                        m.rd = rng.bool();
                        w.set_rd(m.rd);
                    }
                    6 => {
                        m.ra = rng.bool();
                        w.set_ra(m.ra);
                    }
                    _ => {
                        m.rcode = rng.below(16) as u8;
                        w.set_rcode(Rcode::try_from(m.rcode).unwrap());
                        if let Some(e) = m.edns.as_mut() {
                            e.1 = 0;
                        }
                    }
                }
                log.push("header".into());
                // the getters read back what the operations so far set
                let got = (w.id(), w.qr(), u8::from(w.opcode()), w.aa(), w.tc(), w.rd(), w.ra(), u8::from(w.rcode()));
                let want = (m.id, m.qr, m.opcode, m.aa, m.tc, m.rd, m.ra, m.rcode);
                if got != want {
                    problems.push(("c12:header-getters".into(), format!("header getters (id, qr, opcode, aa, tc, rd, ra, rcode) return {:?}, the operations set {:?}", got, want)));
                }
                let counts = (w.qdcount() as usize, w.ancount() as usize, w.nscount() as usize);
                let want_counts = (m.questions.len(), m.answers.len(), m.authorities.len());
                if counts != want_counts {
                    problems.push(("c12:count-getters".into(), format!("qdcount/ancount/nscount getters return {:?}, {:?} were added successfully", counts, want_counts)));
                }
            }
            8..=17 => {
                let name = pool_name(rng);
                let (qt, qc) = (rng.u16() & 0x1ff, *rng.pick(&[1u16, 3, 255]));
                let q = Question { qname: qname(&name), qtype: Qtype::from(qt), qclass: Qclass::from(qc) };
                let r = w.add_question(&q);
                log.push(format!("add_question({}) -> {:?}", name.to_text(), r.as_ref().map_err(kind_of)));
                let allowed = m.section == 0;
                match &r {
                    Ok(()) => {
                        if !allowed {
                            problems.push(("c12:question-out-of-order-accepted".into(), "add_question succeeded after records were added".into()));
                        }
                        if m.questions.is_empty() && m.first_qname.is_none() {
                            m.first_qname = Some(name.clone());
                        }
                        m.questions.push((name, qt, qc, m.mode));
                        m.rr_start_known = None;
                        m.cursor_known = None;
                    }
                    Err(e) => {
                        let fits = m.uncompressed() + name.wire_len() + 4 + m.reserved() <= m.limit_lb;
                        if allowed && fits && matches!(e, WErr::Truncation) {
                            problems.push(("c12:needless-truncation:question".into(), format!("add_question fails with Truncation although {} + {} + reserved {} <= limit {}", m.uncompressed(), name.wire_len() + 4, m.reserved(), m.limit_lb)));
                        }
                        if !allowed && !matches!(e, WErr::OutOfOrder | WErr::Truncation) {
                            problems.push(("c12:wrong-error:question".into(), format!("out-of-order add_question fails with {}", kind_of(e))));
                        }
                    }
                }
            }
            18..=69 => {
                // add a record or an RRset
                let section = match rng.below(10) {
                    0..=4 => 1u8,
                    5 | 6 => 2,
                    _ => 3,
                };
                let padding = pad.take();
                // Stale hints. A hint pointer outlives clear_rrs() and a rolled-back add; the writer
                // promises to check that the prior occurrence exists, so a stale pointer at or beyond
                // the cursor must be ignored. `probe`: the first record after the questions has a root
                // owner and an NS target no other name shares a suffix with, so its hint pointer tells
                // where the records start. `land`: once that is known and the records were cleared, a
                // root-owned opaque record of the right size puts the cursor exactly on a stale pointer.
                let mut probe: Option<RName> = None;
                let mut land: Option<usize> = None;
                if padding.is_none() {
                    if m.section == 0 && m.rr_start_known.is_none() {
                        if rng.chance(1, 3) {
                            probe = Some(RName::simple(&format!("probe{}.hint-probe{}.", rng.below(1000), rng.below(1000))));
                        }
                    } else if let Some(c) = m.cursor_known {
                        if let Some((_, v)) = m.stale.iter().find(|(_, v)| *v >= c + 11 && *v - c - 11 < 400) {
                            if rng.chance(1, 2) {
                                land = Some(*v - c - 11);
                            }
                        }
                    }
                }
                let directed = probe.is_some() || land.is_some();
                let section = if padding.is_some() { 1u8 } else if directed { m.section.max(1) } else { section };
                let (class, rtype) = if padding.is_some() || land.is_some() { (C_IN, 99) } else if probe.is_some() { (C_IN, T_NS) } else { *rng.pick(&REC_TYPES) };
                let n_rdatas = if padding.is_none() && !directed && rng.chance(1, 3) { rng.range(1, 4) } else { 1 };
                let as_set = n_rdatas > 1 || (padding.is_none() && !directed && rng.chance(1, 4));
                let owner = if padding.is_some() || directed { RName::root() } else { pool_name(rng) };
                let ttl = match rng.below(6) {
                    0 => 0,
                    1 => 0x7fff_ffff,
                    2 => 0x8000_0001,
                    _ => rng.u32() >> 8,
                };
                let rdatas: Vec<Vec<u8>> = match padding {
                    // header 12 + root owner 1 + fixed fields 10 + RDATA = offset of the next name
                    Some(target) => vec![vec![0u8; target - 23]],
                    None => match (&probe, land) {
                        (Some(n), _) => vec![n.wire()],
                        (_, Some(len)) => vec![vec![0u8; len]],
                        _ => (0..n_rdatas).map(|_| gen_rdata(rng, class, rtype)).collect(),
                    },
                };
                // hint obeying the API contract
                let mut hint = Hint::None;
                let mut hint_label = "None";
                match rng.below(8) {
                    0 | 1 => {
                        if m.first_qname.as_ref().map_or(false, |q| q.eq_ci(&owner)) && !m.questions.is_empty() {
                            hint = Hint::Qname;
                            hint_label = "Qname";
                        }
                    }
                    2 => {
                        if m.last_owner.as_ref().map_or(false, |q| q.eq_ci(&owner)) {
                            hint = Hint::MostRecentOwner;
                            hint_label = "MostRecentOwner";
                        }
                    }
                    3 => {
                        if m.last_rdata_name.as_ref().map_or(false, |q| q.eq_ci(&owner)) {
                            hint = Hint::MostRecentNameInRdata;
                            hint_label = "MostRecentNameInRdata";
                        }
                    }
                    4 | 5 => {
                        if let Some((p, _)) = m.pointers.iter().find(|(_, n)| n.eq_ci(&owner)) {
                            hint = Hint::Explicit(*p);
                            hint_label = "Explicit";
                        }
                    }
                    _ => {}
                }
                if directed {
                    hint = Hint::None;
                    hint_label = "None";
                } else if let (Some(c), None) = (m.cursor_known, padding) {
                    let cands: Vec<(HintPointer, usize)> = m.stale.iter().filter(|(_, v)| *v >= c).cloned().collect();
                    if !cands.is_empty() && rng.chance(1, 2) {
                        let pick = cands.iter().find(|(_, v)| *v == c).cloned().unwrap_or(cands[rng.below(cands.len())]);
                        hint = Hint::Explicit(pick.0);
                        hint_label = if pick.1 == c { "Explicit(stale, exactly at the cursor)" } else { "Explicit(stale, beyond the cursor)" };
                    }
                }
                let owner_q = qname(&owner);
                let hinted = HintedName::new(hint, &owner_q);
                let mut hv = HintPointerVec::new();
                let use_hv = rng.bool() || probe.is_some();
                let qclass = Class::from(class);
                let qtype = Type::from(rtype);
                let qttl = Ttl::from(ttl);
                let (result, actual_rdatas): (Result<(), WErr>, Vec<Vec<u8>>) = if as_set {
                    let refs: Vec<&Rdata> = rdatas.iter().map(|r| <&Rdata>::try_from(r.as_slice()).unwrap()).collect();
                    let set = RdataSetOwned::from_iter(qclass, qtype, refs.iter().copied()).unwrap();
                    let actual: Vec<Vec<u8>> = set.iter().map(|r| r.octets().to_vec()).collect();
                    let hvo = if use_hv { Some(&mut hv) } else { None };
                    let r = match section {
                        1 => w.add_answer_rrset(hinted, qtype, qclass, qttl, &set, hvo),
                        2 => w.add_authority_rrset(hinted, qtype, qclass, qttl, &set, hvo),
                        _ => w.add_additional_rrset(hinted, qtype, qclass, qttl, &set, hvo),
                    };
                    (r, actual)
                } else {
                    let rd: &Rdata = rdatas[0].as_slice().try_into().unwrap();
                    let hvo = if use_hv { Some(&mut hv) } else { None };
                    let r = match section {
                        1 => w.add_answer_rr(hinted, qtype, qclass, qttl, rd, hvo),
                        2 => w.add_authority_rr(hinted, qtype, qclass, qttl, rd, hvo),
                        _ => w.add_additional_rr(hinted, qtype, qclass, qttl, rd, hvo),
                    };
                    (r, vec![rdatas[0].clone()])
                };
                log.push(format!(
                    "add_{}_{}({} CLASS{} TYPE{} ttl {} hint {} x{}) -> {:?}",
                    ["", "answer", "authority", "additional"][section as usize],
                    if as_set { "rrset" } else { "rr" },
                    owner.to_text(),
                    class,
                    rtype,
                    ttl,
                    hint_label,
                    actual_rdatas.len(),
                    result.as_ref().map_err(kind_of)
                ));
                let order_ok = section >= m.section || section == 3;
                let all_valid = actual_rdatas.iter().all(|rd| writer_accepts(class, rtype, rd));
                let size: usize = actual_rdatas.iter().map(|rd| owner.wire_len() + 10 + rd.len()).sum();
                match &result {
                    Ok(()) => {
                        if !order_ok {
                            problems.push(("c12:record-out-of-order-accepted".into(), format!("record for section {} accepted while in section {}", section, m.section)));
                        }
                        if !all_valid {
                            problems.push(("c12:invalid-rdata-accepted".into(), format!("RDATA whose embedded names do not parse was accepted (TYPE{})", rtype)));
                        }
                        let target = match section {
                            1 => &mut m.answers,
                            2 => &mut m.authorities,
                            _ => &mut m.additionals,
                        };
                        let mode = m.mode;
                        for rd in &actual_rdatas {
                            target.push(MRec { owner: owner.clone(), rtype, class, ttl: if ttl > 0x7fff_ffff { 0 } else { ttl }, rdata: rd.clone(), mode });
                        }
                        if let Some(n) = &probe {
                            // the first record after the questions: root owner, fixed fields, target
                            match hv.get(0).map(pointer_value) {
                                Some(v) if v >= 23 => {
                                    m.rr_start_known = Some(v - 11);
                                    m.cursor_known = Some(v + n.wire_len());
                                }
                                _ => m.cursor_known = None,
                            }
                        } else if let (Some(len), Some(c)) = (land, m.cursor_known) {
                            m.cursor_known = Some(c + 11 + len);
                        } else {
                            m.cursor_known = None;
                        }
                        m.section = section;
                        m.last_owner = Some(owner.clone());
                        let mut idx = 0usize;
                        for rd in &actual_rdatas {
                            for nm in writer_names(class, rtype, rd) {
                                m.last_rdata_name = Some(nm.clone());
                                if use_hv {
                                    if let Some(p) = hv.get(idx) {
                                        m.pointers.push((p, nm.clone()));
                                    }
                                }
                                idx += 1;
                            }
                        }
                    }
                    Err(e) => {
                        // pointers handed out by an add that was rolled back are stale from birth
                        if use_hv {
                            for i in 0..16 {
                                if let Some(p) = hv.get(i) {
                                    if m.stale.len() < 48 {
                                        m.stale.push((p, pointer_value(p)));
                                    }
                                }
                            }
                        }
                        let fits = m.uncompressed() + size + m.reserved() <= m.limit_lb;
                        if order_ok && all_valid && fits && matches!(e, WErr::Truncation) {
                            problems.push(("c12:needless-truncation:record".into(), format!("record of uncompressed size {} rejected with Truncation although {} + {} + reserved {} <= limit {}", size, m.uncompressed(), size, m.reserved(), m.limit_lb)));
                        }
                        if order_ok && fits && all_valid && !matches!(e, WErr::Truncation) {
                            problems.push(("c12:valid-record-rejected".into(), format!("valid record rejected with {}", kind_of(e))));
                        }
                    }
                }
            }
            70..=73 => {
                w.clear_rrs();
                log.push("clear_rrs".into());
                m.answers.clear();
                m.authorities.clear();
                m.additionals.clear();
                m.section = 0;
                m.last_owner = None;
                m.last_rdata_name = None;
                for (p, _) in m.pointers.drain(..) {
                    if m.stale.len() < 48 {
                        m.stale.push((p, pointer_value(p)));
                    }
                }
                m.cursor_known = m.rr_start_known;
            }
            74..=78 => {
                let payload = rng.u16();
                let r = w.set_edns(payload);
                log.push(format!("set_edns({}) -> {:?}", payload, r.as_ref().map_err(kind_of)));
                match &r {
                    Ok(()) => {
                        if m.edns.is_some() {
                            problems.push(("c12:set_edns-twice".into(), "set_edns succeeded twice".into()));
                        }
                        m.edns = Some((payload, 0));
                    }
                    Err(e) => {
                        if m.edns.is_some() != matches!(e, WErr::AlreadyEdns) {
                            problems.push(("c12:set_edns-error".into(), format!("set_edns fails with {} (edns already set: {})", kind_of(e), m.edns.is_some())));
                        }
                        if m.edns.is_none() && m.uncompressed() + m.reserved() + 11 <= m.limit_lb {
                            problems.push(("c12:needless-truncation:edns".into(), "set_edns fails although the OPT record fits".into()));
                        }
                    }
                }
            }
            79..=82 => {
                let v = match rng.below(5) {
                    0 => rng.below(16) as u16,
                    1 => 4095,
                    2 => 4096,
                    3 => *rng.pick(&[2047u16, 2048, 3000, 0x800 | 7]),
                    _ => rng.u16() & 0x1fff,
                };
                let r = w.set_extended_rcode(ExtendedRcode::from(v));
                log.push(format!("set_extended_rcode({}) -> {:?}", v, r.as_ref().map_err(kind_of)));
                let want_ok = m.edns.is_some() && v <= 4095;
                if r.is_ok() != want_ok {
                    problems.push(("c12:set_extended_rcode-result".into(), format!("set_extended_rcode({}) -> {:?} with edns {}", v, r.as_ref().map_err(kind_of), m.edns.is_some())));
                }
                if r.is_ok() {
                    m.rcode = (v & 0xf) as u8;
                    m.edns.as_mut().unwrap().1 = (v >> 4) as u8;
                }
                let want_ext = match m.edns {
                    Some((_, up)) => ((up as u16) << 4) | m.rcode as u16,
                    None => m.rcode as u16,
                };
                if u16::from(w.extended_rcode()) != want_ext {
                    problems.push(("c12:extended_rcode-getter".into(), format!("extended_rcode() = {} expected {}", u16::from(w.extended_rcode()), want_ext)));
                }
            }
            83..=87 => {
                // TSIG
                let alg = if rng.bool() { Alg::Sha1 } else { Alg::Sha256 };
                let key_len = *rng.pick(&[16usize, 32, 64]);
                let key = rng.bytes(key_len);
                let prior_len = *rng.pick(&[0usize, 20, 32]);
                let prior = rng.bytes(prior_len);
                let key_name = match rng.below(4) {
                    0 => RName::simple("key.example.test."),
                    1 => RName::simple("k.www.example.test."),
                    2 => RName::simple("tsig.other.org."),
                    _ => RName::simple("k."),
                };
                let error = *rng.pick(&[0u16, 0, 16, 17, 18]);
                let (kind, mode, alg_name, malg) = match if allow_signing { rng.below(4) } else { 3 } {
                    0 => (Some(Kind::Request), TsigMode::Request { algorithm: qalg(alg), key: key.clone().into_boxed_slice() }, alg.name(), Some(alg)),
                    1 => (Some(Kind::Response), TsigMode::Response { algorithm: qalg(alg), request_mac: prior.clone().into_boxed_slice(), key: key.clone().into_boxed_slice() }, alg.name(), Some(alg)),
                    2 => (Some(Kind::Subsequent), TsigMode::Subsequent { algorithm: qalg(alg), prior_mac: prior.clone().into_boxed_slice(), key: key.clone().into_boxed_slice() }, alg.name(), Some(alg)),
                    _ => {
                        let an = if rng.bool() { alg.name() } else { RName::simple("hmac-md5.sig-alg.reg.int.") };
                        let l: Box<LowercaseName> = qname(&an).into();
                        (None, TsigMode::Unsigned { algorithm: l }, an, None)
                    }
                };
                let t = MTsig { kind, alg: malg, alg_name, key, prior, key_name: key_name.clone(), time: rng.next_u64() & 0xffff_ffff_ffff, fudge: rng.u16(), original_id: rng.u16(), error, server_time: rng.next_u64() & 0xffff_ffff_ffff };
                let prr = PreparedTsigRr {
                    key_name: qname(&key_name).into(),
                    time_signed: TimeSigned::try_from_unix_time(t.time).unwrap(),
                    fudge: t.fudge,
                    original_id: t.original_id,
                    error: ExtendedRcode::from(error),
                    server_time: TimeSigned::try_from_unix_time(t.server_time).unwrap(),
                };
                let r = w.set_tsig(mode, prr);
                log.push(format!("set_tsig({:?} err {}) -> {:?}", kind, error, r.as_ref().map_err(kind_of)));
                match &r {
                    Ok(()) => {
                        if m.tsig.is_some() {
                            problems.push(("c12:set_tsig-twice".into(), "set_tsig succeeded twice".into()));
                        }
                        m.tsig = Some(t);
                    }
                    Err(e) => {
                        if m.tsig.is_some() != matches!(e, WErr::AlreadyTsig) {
                            problems.push(("c12:set_tsig-error".into(), format!("set_tsig fails with {}", kind_of(e))));
                        }
                        if m.tsig.is_none() && m.uncompressed() + m.reserved() + t.rr_len() <= m.limit_lb {
                            problems.push(("c12:needless-truncation:tsig".into(), "set_tsig fails although the TSIG record fits".into()));
                        }
                    }
                }
            }
            88 | 89 => {
                let t = rng.next_u64() & 0xffff_ffff_ffff;
                let r = w.update_time_signed(TimeSigned::try_from_unix_time(t).unwrap());
                log.push(format!("update_time_signed -> {:?}", r.as_ref().map_err(kind_of)));
                if r.is_ok() != m.tsig.is_some() {
                    problems.push(("c12:update_time_signed-result".into(), "update_time_signed result disagrees with TSIG state".into()));
                }
                if r.is_ok() {
                    m.tsig.as_mut().unwrap().time = t;
                }
            }
            90..=93 => {
                let n = match rng.below(4) {
                    0 => rng.below(64),
                    1 => m.buf_len + 100,
                    _ => rng.range(12, m.buf_len.max(13)),
                };
                w.set_limit(n);
                log.push(format!("set_limit({})", n));
                if n >= m.limit_ub {
                    // certainly not below the limit in force: it becomes min(n, buffer)
                    let l = n.min(m.buf_len);
                    m.limit_ub = l;
                    m.limit_lb = l;
                } else {
                    // possibly lowering: silently clamped to what is already
                    // written plus reserved space (the cursor is at most the
                    // uncompressed size of what was accepted)
                    let used_ub = m.uncompressed() + m.reserved();
                    m.limit_ub = m.limit_ub.min(n.max(used_ub));
                    m.limit_lb = n.max(12).min(m.limit_ub);
                }
            }
            94..=96 => {
                let mode = *rng.pick(&[Mode::Standard, Mode::CasePreserving, Mode::Disabled]);
                w.set_compression_mode(mode.q());
                m.mode = mode;
                log.push(format!("set_compression_mode({:?})", mode));
            }
            _ => {
                // template round trip into a new buffer
                let new_len = match rng.below(4) {
                    0 => rng.range(12, 200),
                    1 => m.buf_len,
                    _ => rng.range(m.buf_len / 2 + 12, m.buf_len + 300),
                };
                let template: Template = w.into_template();
                buf_b = vec![0x66u8; new_len];
                let as_subsequent = rng.chance(1, 3);
                let prior = rng.bytes(20);
                let r = if as_subsequent {
                    Writer::try_from_template_as_tsig_subsequent(leak(&mut buf_b), &template, prior.clone().into_boxed_slice())
                } else {
                    Writer::try_from_template(leak(&mut buf_b), &template)
                };
                log.push(format!("template -> buffer {} (subsequent {}) -> {:?}", new_len, as_subsequent, r.as_ref().map(|_| ()).map_err(kind_of)));
                match r {
                    Ok(nw) => {
                        if as_subsequent {
                            match m.tsig.as_mut() {
                                Some(t) if t.kind.is_some() => {
                                    t.kind = Some(Kind::Subsequent);
                                    t.prior = prior;
                                }
                                _ => problems.push(("c12:template-subsequent-accepted".into(), "try_from_template_as_tsig_subsequent succeeded without a signing TSIG mode".into())),
                            }
                        }
                        m.buf_len = new_len;
                        m.limit_ub = m.limit_ub.min(new_len);
                        m.limit_lb = m.limit_lb.min(new_len);
                        w = nw;
                    }
                    Err(e) => {
                        let signing = m.tsig.as_ref().map_or(false, |t| t.kind.is_some());
                        let fits = new_len >= m.uncompressed() + m.reserved();
                        if fits && (!as_subsequent || signing) {
                            problems.push(("c12:template-rejected".into(), format!("restoring a template into a {}-octet buffer fails with {} although {} octets suffice", new_len, kind_of(&e), m.uncompressed() + m.reserved())));
                        }
                        // the writer was consumed: restart from the template in a big buffer
                        buf_b = vec![0x66u8; m.buf_len.max(m.uncompressed() + m.reserved())];
                        m.buf_len = buf_b.len();
                        match Writer::try_from_template(leak(&mut buf_b), &template) {
                            Ok(nw) => {
                                m.limit_ub = m.limit_ub.min(m.buf_len);
                                m.limit_lb = m.limit_lb.min(m.buf_len);
                                w = nw;
                            }
                            Err(e) => {
                                problems.push(("c12:template-rejected".into(), format!("restoring a template into a sufficient buffer fails with {}", kind_of(&e))));
                                return Outcome { message: Vec::new(), mac: None, model: m, log, problems };
                            }
                        }
                    }
                }
            }
        }
    }
    if m.mode != Mode::Disabled {
        m.ever_not_disabled = true;
    }
    let (len, mac) = w.finish_with_mac();
    log.push(format!("finish -> {}", len));
    // the message lives in whichever buffer the final writer used; both
    // are leaked Vecs, so read it back through the length-prefixed copy
    let message = LAST_BUF.with(|b| b.borrow().as_ref().map(|p| unsafe { std::slice::from_raw_parts(p.0, p.1) }[..len.min(p.1)].to_vec())).unwrap_or_else(|| buf_a[..len.min(buf_a.len())].to_vec());
    Outcome { message, mac: mac.map(|m| m.to_vec()), model: m, log, problems }
}

// The Writer borrows its buffer for its whole lifetime, and a template
// round trip moves to a *new* buffer while the old borrow is still
// alive in the type system. Buffers for restored writers are therefore
// leaked for the duration of one program and tracked here.
thread_local! {
    static LAST_BUF: std::cell::RefCell<Option<(*const u8, usize)>> = std::cell::RefCell::new(None);
    static LEAKED: std::cell::RefCell<Vec<(*mut u8, usize)>> = std::cell::RefCell::new(Vec::new());
}

/// Frees the buffers leaked during one program (no Writer is alive).
fn free_leaked() {
    LEAKED.with(|l| {
        for (p, len) in l.borrow_mut().drain(..) {
            unsafe {
                drop(Box::from_raw(std::slice::from_raw_parts_mut(p, len)));
            }
        }
    });
    LAST_BUF.with(|b| *b.borrow_mut() = None);
}

fn leak(v: &mut Vec<u8>) -> &'static mut [u8] {
    let boxed: Box<[u8]> = std::mem::take(v).into_boxed_slice();
    let len = boxed.len();
    // Keep the raw pointer as the root of all later accesses: the
    // Writer's &mut is derived from it, and so is the final read.
    let ptr = Box::into_raw(boxed) as *mut u8;
    LAST_BUF.with(|b| *b.borrow_mut() = Some((ptr as *const u8, len)));
    LEAKED.with(|l| l.borrow_mut().push((ptr, len)));
    unsafe { std::slice::from_raw_parts_mut(ptr, len) }
}

fn name_matches(got: &RName, want: &RName, mode: Mode) -> bool {
    match mode {
        Mode::Standard => got.eq_ci(want),
        _ => got == want,
    }
}

/// C12 and C13 judgements over the finished message.
fn judge(o: &Outcome) -> Vec<(String, String)> {
    let mut out: Vec<(String, String)> = o.problems.clone();
    let m = &o.model;
    let msg = &o.message;
    if msg.len() > m.limit_ub {
        out.push(("c12:over-limit".into(), format!("message of {} octets exceeds the limit in force ({})", msg.len(), m.limit_ub)));
    }
    let d = match decode(msg) {
        Ok(d) => d,
        Err(e) => {
            out.push(("c12:undecodable".into(), format!("finished message does not decode: {}", e)));
            if e.contains("BadPointer") {
                // the reference decoder met a pointer that does not point strictly backwards
                out.push(("c13:pointer-not-backwards".into(), format!("finished message does not decode: {}", e)));
            }
            return out;
        }
    };
    if let Err(e) = check_pseudo_records(&d) {
        out.push(("c12:pseudo-records".into(), e));
    }
    let h = &d.header;
    if h.id != m.id || h.qr() != m.qr || h.opcode() != m.opcode || h.aa() != m.aa || h.tc() != m.tc || h.rd() != m.rd || h.ra() != m.ra || h.rcode() != m.rcode as u16 || h.z_bits() != 0 {
        out.push(("c12:header".into(), format!("header {:04x} does not match the values set", h.flags)));
    }
    if d.questions.len() != m.questions.len() {
        out.push(("c12:question-count".into(), format!("{} questions, expected {}", d.questions.len(), m.questions.len())));
    } else {
        for (g, w) in d.questions.iter().zip(m.questions.iter()) {
            if !name_matches(&g.name.name, &w.0, w.3) || g.qtype != w.1 || g.qclass != w.2 {
                out.push(("c12:question".into(), format!("question {} TYPE{} differs from {} TYPE{}", g.name.name.to_text(), g.qtype, w.0.to_text(), w.1)));
            }
        }
    }
    // data records per section
    for (sec, want) in [(Section::Answer, &m.answers), (Section::Authority, &m.authorities), (Section::Additional, &m.additionals)] {
        let got: Vec<&Record> = d.section(sec).filter(|r| !(sec == Section::Additional && (r.rtype == T_OPT || r.rtype == T_TSIG) && r.start >= pseudo_start(&d, m))).collect();
        if got.len() != want.len() {
            out.push((format!("c12:{:?}-count", sec).to_lowercase(), format!("{} records in {:?}, expected {}", got.len(), sec, want.len())));
            continue;
        }
        for (g, w) in got.iter().zip(want.iter()) {
            let rdata_ok = if rr::names_compressible(w.class, w.rtype) && w.mode == Mode::Standard {
                // names may come back in the case of the name they were
                // compressed against (also when a junk tail follows them)
                let lenient = |rd: &[u8]| -> Vec<u8> {
                    let (prefix, n, _) = rr::name_layout(w.class, w.rtype).unwrap();
                    let mut out = rd[..prefix.min(rd.len())].to_vec();
                    let mut pos = prefix.min(rd.len());
                    for _ in 0..n {
                        match RName::from_wire_uncompressed(&rd[pos..]) {
                            Some((nm, len)) => {
                                out.extend(nm.lower().wire());
                                pos += len;
                            }
                            None => break,
                        }
                    }
                    out.extend_from_slice(&rd[pos..]);
                    out
                };
                lenient(&g.rdata) == lenient(&w.rdata)
            } else {
                g.rdata == w.rdata
            };
            if !name_matches(&g.owner.name, &w.owner, w.mode) || g.rtype != w.rtype || g.class != w.class || g.ttl != w.ttl || !rdata_ok {
                out.push((
                    format!("c12:record:type{}", w.rtype),
                    format!("{:?} record {} TYPE{} ttl {} rdata {} written as {} TYPE{} ttl {} rdata {}", sec, w.owner.to_text(), w.rtype, w.ttl, hex(&w.rdata), g.owner.name.to_text(), g.rtype, g.ttl, hex(&g.rdata)),
                ));
            }
            // C13: names that must not be compressed
            if !rr::names_compressible(w.class, w.rtype) && g.rdata_raw != w.rdata {
                out.push((format!("c13:compressed-rdata:type{}", w.rtype), format!("RDATA of CLASS{} TYPE{} was altered on the wire: {} vs {}", w.class, w.rtype, hex(&g.rdata_raw), hex(&w.rdata))));
            }
            if w.mode == Mode::Disabled && (!g.owner.pointers.is_empty() || g.rdata_names.iter().any(|n| !n.pointers.is_empty())) {
                out.push(("c13:pointer-while-disabled".into(), format!("record {} TYPE{} written in disabled mode contains a pointer", w.owner.to_text(), w.rtype)));
            }
        }
    }
    for (g, w) in d.questions.iter().zip(m.questions.iter()) {
        if w.3 == Mode::Disabled && !g.name.pointers.is_empty() {
            out.push(("c13:pointer-while-disabled".into(), "question written in disabled mode contains a pointer".into()));
        }
    }
    // OPT
    let opt = d.records.iter().find(|r| r.rtype == T_OPT && r.start >= pseudo_start(&d, m));
    match (opt, m.edns) {
        (None, None) => {}
        (Some(o), Some((payload, up))) => {
            if !o.owner.name.0.is_empty() || o.class != payload || o.ttl != (up as u32) << 24 || o.rdlength != 0 {
                out.push(("c12:ext-rcode".into(), format!("OPT record class {} ttl {:08x} rdlength {}; expected class {} ttl {:08x}", o.class, o.ttl, o.rdlength, payload, (up as u32) << 24)));
            }
        }
        (g, w) => out.push(("c12:opt-presence".into(), format!("OPT present: {}, expected: {}", g.is_some(), w.is_some()))),
    }
    // TSIG
    let tsig = d.records.last().filter(|r| r.rtype == T_TSIG && m.tsig.is_some());
    match (tsig, &m.tsig) {
        (None, None) => {
            if o.mac.is_some() {
                out.push(("c12:mac-without-tsig".into(), "finish_with_mac returned a MAC without TSIG".into()));
            }
        }
        (Some(g), Some(t)) => {
            if g.class != C_ANY || g.ttl != 0 || !g.owner.name.eq_ci(&t.key_name) {
                out.push(("c12:tsig-fixed-fields".into(), format!("TSIG owner {} class {} ttl {}", g.owner.name.to_text(), g.class, g.ttl)));
            }
            let vars = TsigVars { key_name: t.key_name.clone(), algorithm: t.alg_name.clone(), time_signed: t.time, fudge: t.fudge, error: t.error, other: t.other() };
            let want_mac = match (t.kind, t.alg) {
                (Some(k), Some(a)) => hmac::tsig_mac(a, &t.key, k, &t.prior, &msg[..g.start], t.original_id, &vars),
                _ => Vec::new(),
            };
            let want_rdata = hmac::tsig_rdata(&TsigVars { algorithm: t.alg_name.lower(), ..vars.clone() }, &want_mac, t.original_id);
            if g.rdata_raw != want_rdata {
                // distinguish a compressed algorithm name (C13) from wrong contents (C12)
                match parse_tsig_rdata(&g.rdata_raw) {
                    Some(f) if f.mac == want_mac && f.time_signed == t.time && f.fudge == t.fudge && f.original_id == t.original_id && f.error == t.error && f.other == t.other() && f.algorithm.eq_ci(&t.alg_name) => {
                        if f.algorithm != t.alg_name.lower() {
                            out.push(("c12:tsig-algorithm-case".into(), "TSIG algorithm name is not in canonical (lower) case".into()));
                        }
                    }
                    Some(f) => out.push(("c12:tsig-rdata".into(), format!("TSIG RDATA differs: MAC {} (expected {}), time {} fudge {} id {} error {}", hex(&f.mac), hex(&want_mac), f.time_signed, f.fudge, f.original_id, f.error))),
                    None => out.push(("c13:tsig-rdata-unparseable".into(), "TSIG RDATA does not parse as uncompressed fields".into())),
                }
            }
            match (&o.mac, t.kind) {
                (Some(mac), Some(_)) => {
                    if *mac != want_mac {
                        out.push(("c12:returned-mac".into(), "MAC returned by finish_with_mac differs from the RFC 8945 computation".into()));
                    }
                }
                (None, None) => {}
                (g, _) => out.push(("c12:returned-mac-presence".into(), format!("finish_with_mac returned a MAC: {}", g.is_some()))),
            }
        }
        (g, w) => out.push(("c12:tsig-presence".into(), format!("TSIG present: {}, expected: {}", g.is_some(), w.is_some()))),
    }

    // ---- C13: every pointer targets the first octet of a label of a
    // name written earlier -------------------------------------------
    let mut all_names: Vec<&DecName> = Vec::new();
    for q in &d.questions {
        all_names.push(&q.name);
    }
    for r in &d.records {
        all_names.push(&r.owner);
        for n in &r.rdata_names {
            all_names.push(n);
        }
    }
    // physical label starts: offsets reached without following a pointer
    let mut label_starts: Vec<usize> = Vec::new();
    for n in &all_names {
        let first_ptr = n.pointers.first().map(|p| p.0).unwrap_or(usize::MAX);
        for &off in &n.label_offsets {
            // labels physically inside this name's own field
            if off >= n.start && off < n.start + n.field_len && off < first_ptr && msg[off] != 0 {
                label_starts.push(off);
            }
        }
    }
    label_starts.sort();
    for n in &all_names {
        if let Some(&(pos, target)) = n.pointers.first() {
            if target >= pos {
                out.push(("c13:forward-pointer".into(), format!("pointer at {} targets {}", pos, target)));
            } else if label_starts.binary_search(&target).is_err() {
                out.push(("c13:pointer-not-to-label".into(), format!("pointer at {} targets {}, which is not the first octet of a label of an earlier name", pos, target)));
            } else if target < 12 {
                out.push(("c13:pointer-into-header".into(), format!("pointer at {} targets the header", pos)));
            }
        }
    }
    if !m.ever_not_disabled {
        let any = all_names.iter().any(|n| !n.pointers.is_empty());
        if any {
            out.push(("c13:pointer-while-disabled".into(), "compression was disabled for the whole program but the message contains pointers".into()));
        }
    }
    // SRV / CH A / unknown types and TSIG: raw 0xc0 octets inside RDATA are data, checked by equality above
    out
}

/// Offset from which trailing pseudo-records (OPT, TSIG written by
/// finish) may appear: after the last data record of the additional
/// section that the program added.
fn pseudo_start(d: &Msg, m: &Model) -> usize {
    let n_data = m.answers.len() + m.authorities.len() + m.additionals.len();
    d.records.get(n_data).map(|r| r.start).unwrap_or(usize::MAX)
}

pub fn run(ctx: &Ctx, rep: &mut Report, prop: &str) {
    let n = if ctx.is_miri() { ctx.cases(8, 320) } else { ctx.cases(60_000, 500_000) };
    let prefix = format!("{}:", prop);
    for case in ctx.case_range(n) {
        rep.current_case = case;
        let mut rng = ctx.rng("writer", case);
        free_leaked();
        let result = panicmon::catch(|| {
            let mut r2 = rng.clone();
            // Miri cannot run the hashing assembly: no signing modes there (handled by skipping TSIG ops)
            run_program(&mut r2, !ctx.is_miri())
        });
        rep.eval();
        match result {
            Err(p) => {
                if prop == "c13" && p.message.contains("invalid pointer found during compression") {
                    // the writer's own scan of the names it wrote earlier met a pointer that is not valid
                    rep.violation("c13:writer-met-invalid-pointer-in-its-own-output".to_string(), format!("writer program panicked at {}: {} (case {})", p.location, p.message, case), Json::Null);
                }
                if prop == "c12" {
                    rep.violation(format!("c12:{}", p.signature()), format!("writer program panicked at {}: {} (case {})", p.location, p.message, case), Json::obj(vec![("case", Json::Int(case as i128))]));
                }
            }
            Ok(o) => {
                let problems = judge(&o);
                let w = Json::obj(vec![("program", Json::Arr(o.log.iter().map(|s| Json::s(s.clone())).collect())), ("message", Json::hex(&o.message))]);
                let mut seen = false;
                for (sig, detail) in problems.iter().filter(|(s, _)| s.starts_with(&prefix)) {
                    rep.violation(sig.clone(), format!("{} (program: {})", detail, o.log.join("; ")), w.clone());
                    seen = true;
                }
                if !seen {
                    let n_ptr = decode(&o.message).map(|d| d.records.iter().map(|r| r.owner.pointers.len().min(1) + r.rdata_names.iter().filter(|n| !n.pointers.is_empty()).count()).sum::<usize>()).unwrap_or(0);
                    rep.class(&format!("q{}:an{}:ns{}:ar{}:edns{}:tsig{}:ptr{}:mode{:?}", o.model.questions.len().min(2), o.model.answers.len().min(3), o.model.authorities.len().min(2), o.model.additionals.len().min(2), o.model.edns.is_some() as u8, o.model.tsig.as_ref().map(|t| format!("{:?}", t.kind)).unwrap_or_default(), n_ptr.min(6), o.model.mode));
                    rep.hist_n("pointers-checked", n_ptr as u64);
                    rep.hist_n("stale-hints:exactly-at-the-cursor", o.log.iter().filter(|l| l.contains("Explicit(stale, exactly") && l.ends_with("Ok(())")).count() as u64);
                    rep.hist_n("stale-hints:beyond-the-cursor", o.log.iter().filter(|l| l.contains("Explicit(stale, beyond") && l.ends_with("Ok(())")).count() as u64);
                }
                if case % 3000 == 1 {
                    rep.sample(|| w.clone());
                }
            }
        }
    }
}
