//! C14 — wire-format name decoding matches RFC 1035 §4.1.4.
//!
//! Oracle: `wire::decode_name` / `wire::skip_name` /
//! `RName::from_wire_uncompressed` (independent implementations).
//! Workload: exhaustive small buffers over an alphabet of significant
//! octets at every start offset, plus random structured buffers.

use quandary::name::Name;

use crate::names::RName;
use crate::panicmon;
use crate::report::{hex, Json, Report};
use crate::rng::Rng;
use crate::wire;
use crate::Ctx;

const ALPHABET: [u8; 12] = [0, 1, 2, 3, 63, 64, 0x80, 0xbf, 0xc0, 0xc1, 0xff, b'a'];

fn witness(buf: &[u8], start: usize) -> Json {
    Json::obj(vec![("buffer", Json::hex(buf)), ("start", Json::Int(start as i128))])
}

/// Compares all decoding entry points on one (buffer, start) pair.
/// Returns a short outcome-class string.
pub fn check_one(rep: &mut Report, buf: &[u8], start: usize) -> String {
    rep.eval();
    let mut class = String::new();

    // --- compressed parsing ---------------------------------------
    let reference = wire::decode_name(buf, start);
    match panicmon::catch(|| Name::try_from_compressed(buf, start)) {
        Err(p) => {
            rep.violation(
                format!("c14:try_from_compressed:{}", p.signature()),
                format!("Name::try_from_compressed panicked at {}: {} (buffer {} start {})", p.location, p.message, hex(buf), start),
                witness(buf, start),
            );
            class.push_str("P");
        }
        Ok(got) => match (&reference, got) {
            (Ok(r), Ok((name, len))) => {
                if name.wire_repr() != r.name.wire().as_slice() || len != r.field_len {
                    rep.violation(
                        "c14:try_from_compressed:mismatch",
                        format!(
                            "buffer {} start {}: quandary gives name {} len {}, reference gives {} len {}",
                            hex(buf), start, hex(name.wire_repr()), len, hex(&r.name.wire()), r.field_len
                        ),
                        witness(buf, start),
                    );
                }
                if name.len() != r.name.n_labels() {
                    rep.violation(
                        "c14:try_from_compressed:label-count",
                        format!("buffer {} start {}: {} labels, reference {}", hex(buf), start, name.len(), r.name.n_labels()),
                        witness(buf, start),
                    );
                }
                class.push_str(&format!("ok(l{},p{},f{})", r.name.0.len().min(9), r.pointers.len().min(4), r.field_len.min(9)));
            }
            (Err(e), Err(_)) => class.push_str(&format!("err({:?})", e)),
            (Ok(r), Err(e)) => {
                rep.violation(
                    "c14:try_from_compressed:rejects-valid",
                    format!("buffer {} start {}: quandary rejects ({:?}) a name the reference decodes as {}", hex(buf), start, e, hex(&r.name.wire())),
                    witness(buf, start),
                );
            }
            (Err(e), Ok((name, len))) => {
                rep.violation(
                    "c14:try_from_compressed:accepts-invalid",
                    format!("buffer {} start {}: quandary accepts ({} len {}) what the reference rejects ({:?})", hex(buf), start, hex(name.wire_repr()), len, e),
                    witness(buf, start),
                );
            }
        },
    }

    if start > buf.len() {
        return class;
    }
    let tail = &buf[start..];

    // --- skipping -------------------------------------------------
    let ref_skip = wire::skip_name(tail);
    match panicmon::catch(|| Name::skip_compressed(tail)) {
        Err(p) => rep.violation(
            format!("c14:skip_compressed:{}", p.signature()),
            format!("Name::skip_compressed panicked at {}: {} (octets {})", p.location, p.message, hex(tail)),
            witness(buf, start),
        ),
        Ok(got) => match (&ref_skip, got) {
            (Ok(r), Ok(g)) => {
                if *r != g {
                    rep.violation(
                        "c14:skip_compressed:length",
                        format!("octets {}: quandary skips {}, reference {}", hex(tail), g, r),
                        witness(buf, start),
                    );
                }
                class.push_str(&format!("/s{}", r.min(&9)));
            }
            (Err(_), Err(_)) => class.push_str("/sE"),
            (Ok(r), Err(e)) => rep.violation(
                "c14:skip_compressed:rejects-valid",
                format!("octets {}: quandary rejects ({:?}), reference skips {}", hex(tail), e, r),
                witness(buf, start),
            ),
            (Err(e), Ok(g)) => rep.violation(
                "c14:skip_compressed:accepts-invalid",
                format!("octets {}: quandary skips {} octets, reference rejects ({:?})", hex(tail), g, e),
                witness(buf, start),
            ),
        },
    }

    // --- uncompressed parsing / validation ------------------------
    let ref_unc = RName::from_wire_uncompressed(tail);
    let ref_all = ref_unc.clone().filter(|(_, len)| *len == tail.len());
    let results = panicmon::catch(|| {
        (
            Name::try_from_uncompressed(tail).map(|(n, l)| (n.wire_repr().to_vec(), n.len(), l)),
            Name::try_from_uncompressed_all(tail).map(|n| (n.wire_repr().to_vec(), n.len())),
            Name::validate_uncompressed(tail),
            Name::validate_uncompressed_all(tail),
        )
    });
    match results {
        Err(p) => rep.violation(
            format!("c14:uncompressed:{}", p.signature()),
            format!("uncompressed parsing panicked at {}: {} (octets {})", p.location, p.message, hex(tail)),
            witness(buf, start),
        ),
        Ok((parse, parse_all, validate, validate_all)) => {
            let mut bad = Vec::new();
            match (&ref_unc, &parse) {
                (Some((n, l)), Ok((w, nl, gl))) => {
                    if *w != n.wire() || gl != l || *nl != n.n_labels() {
                        bad.push(format!("try_from_uncompressed gives {} len {}, reference {} len {}", hex(w), gl, hex(&n.wire()), l));
                    }
                }
                (None, Err(_)) => {}
                (Some(_), Err(e)) => bad.push(format!("try_from_uncompressed rejects a valid name: {:?}", e)),
                (None, Ok(_)) => bad.push("try_from_uncompressed accepts an invalid name".to_string()),
            }
            match (&ref_all, &parse_all) {
                (Some((n, _)), Ok((w, _))) => {
                    if *w != n.wire() {
                        bad.push("try_from_uncompressed_all gives a different name".to_string());
                    }
                }
                (None, Err(_)) => {}
                (Some(_), Err(e)) => bad.push(format!("try_from_uncompressed_all rejects: {:?}", e)),
                (None, Ok(_)) => bad.push("try_from_uncompressed_all accepts".to_string()),
            }
            match (&ref_unc, &validate) {
                (Some((_, l)), Ok(gl)) => {
                    if l != gl {
                        bad.push(format!("validate_uncompressed length {} vs reference {}", gl, l));
                    }
                }
                (None, Err(_)) => {}
                (Some(_), Err(e)) => bad.push(format!("validate_uncompressed rejects: {:?}", e)),
                (None, Ok(_)) => bad.push("validate_uncompressed accepts".to_string()),
            }
            match (&ref_all, &validate_all) {
                (Some(_), Ok(())) | (None, Err(_)) => {}
                (Some(_), Err(e)) => bad.push(format!("validate_uncompressed_all rejects: {:?}", e)),
                (None, Ok(())) => bad.push("validate_uncompressed_all accepts".to_string()),
            }
            for b in bad {
                let sig = b.split(' ').next().unwrap_or("?").to_string();
                rep.violation(format!("c14:uncompressed:{}", sig), format!("octets {}: {}", hex(tail), b), witness(buf, start));
            }
            class.push_str(if ref_unc.is_some() { "/u+" } else { "/u-" });
            class.push_str(if ref_all.is_some() { "a+" } else { "a-" });
        }
    }
    class
}

fn exhaustive(ctx: &Ctx, rep: &mut Report, max_len: usize) {
    let mut index: u64 = 0;
    let mut buf = Vec::with_capacity(max_len);
    for len in 0..=max_len {
        let total = 12u64.pow(len as u32);
        for code in 0..total {
            index += 1;
            if index % ctx.nshards != ctx.shard {
                continue;
            }
            buf.clear();
            let mut c = code;
            for _ in 0..len {
                buf.push(ALPHABET[(c % 12) as usize]);
                c /= 12;
            }
            for start in 0..=len + 1 {
                let class = check_one(rep, &buf, start);
                rep.class(&format!("x:{}", class));
                rep.hist(if class.starts_with("ok") { "exhaustive:accepted" } else { "exhaustive:rejected" });
            }
            if code % 50021 == 7 {
                let b = buf.clone();
                rep.sample(|| Json::obj(vec![("kind", Json::s("exhaustive")), ("buffer", Json::hex(&b))]));
            }
        }
    }
    rep.extra("exhaustive_max_len", Json::Int(max_len as i128));
}

/// Random label with significant content.
fn gen_label(rng: &mut Rng, max: usize) -> Vec<u8> {
    let len = match rng.below(10) {
        0 => 63.min(max),
        1 => 62.min(max),
        2..=5 => 1,
        _ => rng.range(1, max.min(12)),
    }
    .max(1);
    (0..len)
        .map(|_| match rng.below(8) {
            0 => 0xc0,
            1 => b'.',
            2 => b'A',
            3 => 0,
            _ => b'a' + rng.below(3) as u8,
        })
        .collect()
}

/// Builds a message-like buffer containing several names, some of them
/// compressed against earlier ones, then optionally damages it.
pub fn gen_structured(rng: &mut Rng) -> (Vec<u8>, Vec<usize>) {
    if rng.chance(1, 40) {
        // a long chain of bare pointers, each to the one before (RFC 1035 puts no bound on the
        // number of pointers, only that each points strictly backwards), ending in a short name;
        // sometimes every few links carry a label of their own
        let mut buf: Vec<u8> = rng.bytes_below(4);
        let mut starts = Vec::new();
        let mut prev = buf.len();
        if rng.bool() {
            buf.extend_from_slice(&[3, b'w', b'w', b'w']);
        }
        buf.push(0);
        let links = *rng.pick(&[100usize, 126, 127, 128, 129, 130, 200, 280]);
        for i in 0..links {
            let here = buf.len();
            if rng.chance(1, 16) && i + 130 < links {
                buf.extend_from_slice(&[1, b'a' + (i % 26) as u8]);
            }
            buf.push(0xc0 | ((prev >> 8) as u8 & 0x3f));
            buf.push(prev as u8);
            prev = here;
            starts.push(here);
        }
        let keep: Vec<usize> = starts.iter().rev().take(3).cloned().collect();
        return (buf, keep);
    }
    let mut buf: Vec<u8> = rng.bytes_below(14);
    let mut label_starts: Vec<usize> = Vec::new(); // offsets of labels usable as pointer targets
    let mut name_starts: Vec<usize> = Vec::new();
    let n_names = rng.range(1, 6);
    for _ in 0..n_names {
        if buf.len() > 520 {
            break;
        }
        name_starts.push(buf.len());
        let shape = rng.below(12);
        let (n_labels, max_label) = match shape {
            0 => (127, 1),            // 127 one-octet labels: 255 octets with root
            1 => (128, 1),            // one too many
            2 => (4, 63),             // 4*64+1 = 257 > 255
            3 => (rng.range(3, 4), 62),
            _ => (rng.below(6), 12),
        };
        let mut this_labels = Vec::new();
        for _ in 0..n_labels {
            let l = if max_label == 1 { vec![b'a' + rng.below(2) as u8] } else { gen_label(rng, max_label) };
            this_labels.push(buf.len());
            buf.push(l.len() as u8);
            buf.extend_from_slice(&l);
        }
        // terminate: zero octet or pointer to an earlier label
        if !label_starts.is_empty() && rng.chance(3, 5) {
            let target = *rng.pick(&label_starts);
            buf.push(0xc0 | ((target >> 8) as u8 & 0x3f));
            buf.push(target as u8);
        } else {
            this_labels.push(buf.len());
            buf.push(0);
        }
        label_starts.extend(this_labels);
        if rng.chance(1, 3) {
            let junk = rng.bytes_below(5);
            buf.extend_from_slice(&junk);
        }
    }
    // damage
    match rng.below(10) {
        0 => {
            let cut = rng.below(buf.len() + 1);
            buf.truncate(cut);
        }
        1 if !buf.is_empty() => {
            let i = rng.below(buf.len());
            buf[i] = *rng.pick(&ALPHABET);
        }
        2 if buf.len() >= 2 => {
            // forward / self pointer
            let i = rng.below(buf.len() - 1);
            let target = rng.range(i.saturating_sub(2), (i + 6).min(0x3fff));
            buf[i] = 0xc0 | ((target >> 8) as u8);
            buf[i + 1] = target as u8;
        }
        3 => buf.push(0xc0),
        _ => {}
    }
    (buf, name_starts)
}

/// "Any octet buffer and start offset": the buffer is padded out so that the chunk under test
/// starts around or beyond the reach of a 14-bit pointer (16 384) or of a 16-bit offset
/// (65 536), and that chunk ends in a pointer back into the low part of the buffer (or, as a
/// negative, to itself or beyond the 14-bit reach it cannot have).
fn far_chunk(rng: &mut Rng, mut buf: Vec<u8>, low_starts: Vec<usize>) -> (Vec<u8>, Vec<usize>) {
    let base = *rng.pick(&[16_383usize, 16_384, 16_390, 32_768, 65_530, 65_535, 65_536, 65_540, 66_000, 70_000, 131_072, 131_080]);
    let at = (base + rng.below(6)).max(buf.len());
    // a few more pointer targets high up in the 14-bit range
    let mut targets: Vec<usize> = low_starts.clone();
    buf.resize(at.min(16_300).max(buf.len()), 0);
    if buf.len() >= 16_300 && at > 16_384 {
        for _ in 0..3 {
            targets.push(buf.len());
            let l = gen_label(rng, 9);
            buf.push(l.len() as u8);
            buf.extend_from_slice(&l);
        }
        buf.push(0);
        targets.push(buf.len() - 1);
    }
    if buf.len() < at {
        buf.resize(at, 0);
    }
    let start = buf.len();
    for _ in 0..rng.below(4) {
        let l = gen_label(rng, 12);
        buf.push(l.len() as u8);
        buf.extend_from_slice(&l);
    }
    let target = match rng.below(8) {
        0 => start & 0x3fff,
        1 => rng.below(0x4000),
        _ if !targets.is_empty() => *rng.pick(&targets) & 0x3fff,
        _ => 0,
    };
    buf.push(0xc0 | (target >> 8) as u8);
    buf.push(target as u8);
    buf.extend_from_slice(&rng.bytes_below(3));
    let mut starts = vec![start];
    if let Some(t) = low_starts.first() {
        starts.push(*t);
    }
    (buf, starts)
}

pub fn run(ctx: &Ctx, rep: &mut Report) {
    let max_len = if ctx.is_miri() { if ctx.thorough { 3 } else { 2 } } else { 5 };
    if ctx.only_case.is_none() {
        exhaustive(ctx, rep, max_len);
    }
    let n = if ctx.is_miri() { ctx.cases(120, 3_000) } else { ctx.cases(200_000, 2_000_000) };
    for case in ctx.case_range(n) {
        rep.current_case = case;
        let mut rng = ctx.rng("c14", case);
        let (buf, name_starts) = if rng.chance(1, 6) {
            (rng.bytes_below(40), vec![0])
        } else {
            gen_structured(&mut rng)
        };
        let (buf, name_starts) = if case % 16 == 5 { far_chunk(&mut rng, buf, name_starts) } else { (buf, name_starts) };
        let mut starts: Vec<usize> = name_starts;
        starts.push(rng.below(buf.len() + 3));
        starts.push(buf.len());
        for start in starts {
            let class = check_one(rep, &buf, start);
            rep.class(&format!("s:{}", class));
            rep.hist(if class.starts_with("ok") { "structured:accepted" } else { "structured:rejected" });
            if start >= 16_383 {
                rep.hist(&format!("far-start:{}:{}", if start >= 65_536 { "beyond-64k" } else { "beyond-16k" }, if class.starts_with("ok") { "accepted" } else { "rejected" }));
            }
        }
        if case % 1000 == 3 {
            rep.sample(|| Json::obj(vec![("kind", Json::s("structured")), ("buffer", Json::hex(&buf))]));
        }
    }
}
