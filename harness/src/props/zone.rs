//! C06 (zone lookups), C20 (zone store contents), C21 (zone
//! validation) and C22 (catalog histories) — all against the flat
//! reference models in zonemodel.rs.

use std::collections::{BTreeMap, BTreeSet};
use std::sync::Arc;

use quandary::class::Class;
use quandary::db::catalog::{Catalog, Entry};
use quandary::db::zone::{GluePolicy, LookupAddrsResult, LookupAllResult, LookupOptions, LookupResult, SingleRrset, ValidationIssue};
use quandary::db::{HashMapTreeCatalog, HashMapTreeZone, SingleZoneCatalog, Zone};
use quandary::name::Name;
use quandary::rr::{Rdata, Ttl, Type};

use crate::gen::{db_err, qname, soa_rdata};
use crate::names::RName;
use crate::panicmon;
use crate::rdataref as rr;
use crate::report::{hex, Json, Report};
use crate::rng::Rng;
use crate::wire::*;
use crate::zonemodel::*;
use crate::Ctx;

const ALPHA: [&[u8]; 4] = [b"a", b"b", b"*", b"c"];
/// Labels around the edges of the letter ranges (case folding must cover exactly A-Z)
/// and a few non-letters that differ from letters by the case bit.
const EDGE: [&[u8]; 12] = [b"z", b"Z", b"y", b"zz", b"aZ", b"@", b"[", b"`", b"{", b"0", b"-", b"\xc1"];

fn pick_label(rng: &mut Rng) -> &'static [u8] {
    if rng.chance(3, 4) {
        *rng.pick(&ALPHA)
    } else {
        *rng.pick(&EDGE)
    }
}

fn small_name(rng: &mut Rng, apex: &RName, max_depth: usize) -> RName {
    let depth = rng.below(max_depth + 1);
    let mut n = apex.clone();
    for _ in 0..depth {
        n = n.child(pick_label(rng));
    }
    n
}

fn flip(rng: &mut Rng, n: &RName) -> RName {
    let mut m = n.clone();
    for l in m.0.iter_mut() {
        for c in l.iter_mut() {
            if c.is_ascii_alphabetic() && rng.chance(1, 3) {
                *c ^= 0x20;
            }
        }
    }
    m
}

/// A record list over a four-label alphabet: collisions everywhere.
pub fn gen_small_zone(rng: &mut Rng, apex: &RName, class: u16, hostile_adds: bool) -> Vec<RRec> {
    let mut recs = Vec::new();
    let ttl_of = |owner: &RName, t: u16| -> u32 { [0u32, 60, 300, 7200][(crate::rng::fnv1a(&[owner.lower().wire(), vec![t as u8]].concat()) % 4) as usize] };
    let n_soa = *rng.pick(&[1usize, 1, 1, 1, 0, 2]);
    for i in 0..n_soa {
        recs.push(RRec { owner: apex.clone(), rtype: T_SOA, class, ttl: 300, rdata: soa_rdata(&apex.child(b"ns"), &apex.child(b"hm"), i as u32, *rng.pick(&[0u32, 60, 3600])) });
    }
    if rng.chance(5, 6) {
        let t = if rng.bool() { small_name(rng, apex, 2) } else { RName::simple("ns.outside.") };
        recs.push(RRec { owner: apex.clone(), rtype: T_NS, class, ttl: ttl_of(apex, T_NS), rdata: t.wire() });
    }
    let n = rng.range(3, 36);
    for _ in 0..n {
        let mut owner = small_name(rng, apex, 3);
        if rng.chance(1, 5) {
            owner = flip(rng, &owner);
        }
        let (rtype, rdata) = match rng.below(20) {
            0..=6 => (T_A, if class == C_CH {
                let mut v = RName::simple("lan.").wire();
                v.extend_from_slice(&[0, rng.below(3) as u8]);
                v
            } else {
                vec![10, 0, 0, rng.below(3) as u8]
            }),
            7..=9 => (T_NS, match rng.below(4) {
                0 => RName::simple("ns.outside."),
                1 => owner.child(pick_label(rng)),
                _ => small_name(rng, apex, 3),
            }
            .wire()),
            10 | 11 | 12 => (T_CNAME, if rng.chance(1, 5) { RName::simple("x.outside.") } else { small_name(rng, apex, 3) }.wire()),
            13 | 14 => {
                let mut v = vec![0, rng.below(2) as u8];
                v.extend(small_name(rng, apex, 3).wire());
                (T_MX, v)
            }
            15 => (T_TXT, vec![1, b'a' + rng.below(2) as u8]),
            16 | 17 => (T_AAAA, {
                let mut v = vec![0u8; 16];
                v[15] = rng.below(2) as u8;
                v
            }),
            18 => (99, rng.bytes_below(4)),
            _ => {
                let t = small_name(rng, apex, 2);
                (T_PTR, flip(rng, &t).wire())
            }
        };
        let mut rec = RRec { ttl: ttl_of(&owner, rtype), owner, rtype, class, rdata };
        if hostile_adds {
            match rng.below(14) {
                0 => rec.owner = RName::simple("a.elsewhere."),
                1 => rec.class = if class == C_IN { C_CH } else { C_IN },
                2 => rec.ttl = rec.ttl.wrapping_add(1),
                3 => rec.ttl = 0x8000_0000 | rec.ttl,
                4 => rec.owner = apex.parent(1).unwrap_or_else(RName::root),
                5 => {
                    // an owner outside the zone whose wire form ends in the apex's wire form: one
                    // label spells "<junk><apex labels with their length octets>"
                    let mut label: Vec<u8> = vec![b'x'];
                    for l in &apex.0 {
                        label.push(l.len() as u8);
                        label.extend_from_slice(l);
                    }
                    if !apex.0.is_empty() && label.len() <= 63 {
                        let mut v: Vec<Vec<u8>> = (0..rng.below(3)).map(|_| pick_label(rng).to_vec()).collect();
                        v.push(label);
                        let o = RName(v);
                        if o.is_valid() {
                            rec.owner = o;
                        }
                    }
                }
                _ => {}
            }
        }
        recs.push(rec);
    }
    recs
}

fn build(apex: &RName, class: u16, policy: GluePolicy, recs: &[RRec]) -> (RefZone, HashMapTreeZone) {
    let mut rz = RefZone::new(apex.clone(), class);
    let mut qz = HashMapTreeZone::new(qname(apex), Class::from(class), policy);
    for rec in recs {
        let _ = rz.add(rec.clone());
        let rdata: &Rdata = rec.rdata.as_slice().try_into().unwrap();
        let _ = qz.add(&qname(&rec.owner), Type::from(rec.rtype), Class::from(rec.class), Ttl::from(rec.ttl), rdata);
    }
    (rz, qz)
}

fn zone_json(z: &RefZone) -> Json {
    Json::obj(vec![
        ("apex", Json::s(z.apex.to_text())),
        ("class", Json::Int(z.class as i128)),
        (
            "adds",
            Json::Arr(z.offered.iter().map(|(r, res)| Json::s(format!("{} CLASS{} TYPE{} ttl {} {} -> {:?}", r.owner.to_text(), r.class, r.rtype, r.ttl, hex(&r.rdata), res))).collect()),
        ),
    ])
}

/// Names within two labels of anything in the zone.
fn nearby_names(z: &RefZone) -> Vec<RName> {
    let mut set: BTreeSet<RName> = BTreeSet::new();
    let mut base: Vec<RName> = z.node_names.values().cloned().collect();
    for (rec, _) in &z.offered {
        if let Some((_, names, _)) = rr::split_names(rec.class, rec.rtype, &rec.rdata) {
            base.extend(names);
        }
    }
    base.push(RName::simple("a.elsewhere."));
    base.push(RName::root());
    for n in base {
        for l1 in ALPHA.iter() {
            let c = n.child(l1);
            for l2 in ALPHA.iter() {
                set.insert(c.child(l2));
            }
            set.insert(c);
        }
        if let Some(p) = n.parent(1) {
            if let Some(pp) = p.parent(1) {
                set.insert(pp);
            }
            set.insert(p);
        }
        set.insert(n);
    }
    set.into_iter().filter(|n| n.is_valid()).collect()
}

fn set_eq(got: &SingleRrset, want: &RefRrset) -> bool {
    u32::from(got.ttl) == want.ttl && got.rdatas.iter().map(|r| r.octets().to_vec()).collect::<Vec<_>>() == want.rdatas
}

fn syn_eq(got: &Option<std::borrow::Cow<Name>>, want: &Option<RName>) -> bool {
    match (got, want) {
        (None, None) => true,
        (Some(g), Some(w)) => g.wire_repr() == w.wire().as_slice(),
        _ => false,
    }
}

/// One lookup compared with the model. Returns an outcome class.
fn check_lookup(z: &RefZone, qz: &HashMapTreeZone, name: &RName, rtype: u16, below: bool, unchecked: bool) -> Result<String, (String, String)> {
    let base = z.lookup(name, below);
    let opts = || LookupOptions { unchecked, search_below_cuts: below };
    let qn = qname(name);
    let ctx = format!("{} TYPE{} below_cuts={} unchecked={}", name.to_text(), rtype, below, unchecked);
    let referral_ok = |child: &Name, ns: &SingleRrset, cut: &RName| -> bool { child.wire_repr() == cut.wire().as_slice() && z.rrset(cut, T_NS).map_or(false, |w| set_eq(ns, w)) };

    // single type
    let got = qz.lookup(&qn, Type::from(rtype), opts());
    let class = match (&base, &got) {
        (Base::WrongZone, LookupResult::WrongZone) => "wrongzone".to_string(),
        (Base::NxDomain, LookupResult::NxDomain) => "nxdomain".to_string(),
        (Base::Referral { cut }, LookupResult::Referral(r)) => {
            if !referral_ok(&r.child_zone, &r.ns_rrset, cut) {
                return Err(("lookup:referral-contents".into(), format!("{}: referral to {} with wrong contents (expected cut {})", ctx, r.child_zone, cut.to_text())));
            }
            "referral".to_string()
        }
        (Base::Found { node, synthesized_from }, g) => {
            let want_set = z.rrset(node, rtype);
            let want_cname = z.rrset(node, T_CNAME);
            match (want_set, want_cname, g) {
                (Some(w), _, LookupResult::Found(f)) => {
                    if !set_eq(&f.data, w) || !syn_eq(&f.source_of_synthesis, synthesized_from) {
                        return Err(("lookup:found-contents".into(), format!("{}: RRset or source of synthesis differs", ctx)));
                    }
                    format!("found:syn{}", synthesized_from.is_some() as u8)
                }
                (None, Some(w), LookupResult::Cname(c)) => {
                    if !set_eq(&c.rrset, w) || !syn_eq(&c.source_of_synthesis, synthesized_from) {
                        return Err(("lookup:cname-contents".into(), format!("{}: CNAME RRset or source of synthesis differs", ctx)));
                    }
                    format!("cname:syn{}", synthesized_from.is_some() as u8)
                }
                (None, None, LookupResult::NoRecords(n)) => {
                    if !syn_eq(&n.source_of_synthesis, synthesized_from) {
                        return Err(("lookup:norecords-synthesis".into(), format!("{}: source of synthesis differs", ctx)));
                    }
                    format!("norecords:syn{}:ent{}", synthesized_from.is_some() as u8, z.rrsets_at(node).is_empty() as u8)
                }
                _ => return Err(("lookup:variant".into(), format!("{}: got {:?}, model says the name exists (node {}, has type: {}, has CNAME: {})", ctx, g, node.to_text(), want_set.is_some(), want_cname.is_some()))),
            }
        }
        (b, g) => return Err(("lookup:variant".into(), format!("{}: got {:?}, model says {:?}", ctx, g, b))),
    };

    // addresses
    let got = qz.lookup_addrs(&qn, opts());
    match (&base, &got) {
        (Base::WrongZone, LookupAddrsResult::WrongZone) | (Base::NxDomain, LookupAddrsResult::NxDomain) => {}
        (Base::Referral { cut }, LookupAddrsResult::Referral(r)) => {
            if !referral_ok(&r.child_zone, &r.ns_rrset, cut) {
                return Err(("lookup_addrs:referral-contents".into(), format!("{}: referral contents differ", ctx)));
            }
        }
        (Base::Found { node, synthesized_from }, LookupAddrsResult::Found(f)) => {
            let want_a = z.rrset(node, T_A);
            let want_aaaa = if z.class == C_IN { z.rrset(node, T_AAAA) } else { None };
            let ok = |g: &Option<SingleRrset>, w: Option<&RefRrset>| match (g, w) {
                (None, None) => true,
                (Some(g), Some(w)) => set_eq(g, w),
                _ => false,
            };
            if !ok(&f.data.a_rrset, want_a) || !ok(&f.data.aaaa_rrset, want_aaaa) || !syn_eq(&f.source_of_synthesis, synthesized_from) {
                return Err(("lookup_addrs:contents".into(), format!("{}: address RRsets or source of synthesis differ", ctx)));
            }
        }
        (b, g) => return Err(("lookup_addrs:variant".into(), format!("{}: lookup_addrs got {:?}, model says {:?}", ctx, g, b))),
    }

    // all records
    let got = qz.lookup_all(&qn, opts());
    match (&base, got) {
        (Base::WrongZone, LookupAllResult::WrongZone) | (Base::NxDomain, LookupAllResult::NxDomain) => {}
        (Base::Referral { cut }, LookupAllResult::Referral(r)) => {
            if !referral_ok(&r.child_zone, &r.ns_rrset, cut) {
                return Err(("lookup_all:referral-contents".into(), format!("{}: referral contents differ", ctx)));
            }
        }
        (Base::Found { node, synthesized_from }, LookupAllResult::Found(f)) => {
            if !syn_eq(&f.source_of_synthesis, synthesized_from) {
                return Err(("lookup_all:synthesis".into(), format!("{}: source of synthesis differs", ctx)));
            }
            let mut got_sets: Vec<(u16, u32, Vec<Vec<u8>>)> = f.data.map(|s| (u16::from(s.rr_type), u32::from(s.ttl), s.rdatas.iter().map(|r| r.octets().to_vec()).collect())).collect();
            got_sets.sort();
            let mut want_sets: Vec<(u16, u32, Vec<Vec<u8>>)> = z.rrsets_at(node).iter().map(|s| (s.rtype, s.ttl, s.rdatas.clone())).collect();
            want_sets.sort();
            if got_sets != want_sets {
                return Err(("lookup_all:contents".into(), format!("{}: RRsets at the node differ", ctx)));
            }
        }
        (b, g) => return Err(("lookup_all:variant".into(), format!("{}: lookup_all got {:?}, model says {:?}", ctx, g, b))),
    }
    Ok(class)
}

pub fn run_c06(ctx: &Ctx, rep: &mut Report) {
    let n = if ctx.is_miri() { ctx.cases(4, 160) } else { ctx.cases(2_400, 24_000) };
    for case in ctx.case_range(n) {
        rep.current_case = case;
        let mut rng = ctx.rng("c06", case);
        let apex = RName::simple(*rng.pick(&["z.", "a.z.", ".", "b.a.z."]));
        let class = *rng.pick(&[C_IN, C_IN, C_CH]);
        // a third of the zones are also offered records that must be rejected (wrong class, outside
        // the zone, TTL mismatch): a rejected add must leave every lookup as it was
        let with_rejected = rng.chance(1, 3);
        let recs = gen_small_zone(&mut rng, &apex, class, with_rejected);
        let (rz, qz) = build(&apex, class, GluePolicy::Narrow, &recs);
        let mut names = nearby_names(&rz);
        if with_rejected {
            for (rec, res) in &rz.offered {
                if res.is_err() && rec.owner.is_at_or_below(&apex) && !names.contains(&rec.owner) {
                    names.push(rec.owner.clone());
                    if let Some(p) = rec.owner.parent(1) {
                        names.push(p);
                    }
                    names.push(rec.owner.child(b"a"));
                }
            }
        }
        if ctx.is_miri() {
            rng.shuffle(&mut names);
            names.truncate(12);
        }
        for name in &names {
            let name = if rng.chance(1, 3) { flip(&mut rng, name) } else { name.clone() };
            if rz.touches_ns_at_wildcard(&name) {
                rep.hist("excluded:ns-at-wildcard-source");
                continue;
            }
            let in_zone = name.is_at_or_below(&apex);
            let rtype = *rng.pick(&[T_A, T_A, T_NS, T_CNAME, T_MX, T_AAAA, T_TXT, T_SOA, 99]);
            for below in [false, true] {
                for unchecked in [false, true] {
                    if unchecked && !in_zone {
                        continue; // the contract leaves this undefined
                    }
                    rep.eval();
                    let r = panicmon::catch(|| check_lookup(&rz, &qz, &name, rtype, below, unchecked));
                    let w = || Json::obj(vec![("zone", zone_json(&rz)), ("name", Json::s(name.to_text())), ("type", Json::Int(rtype as i128)), ("search_below_cuts", Json::Bool(below)), ("unchecked", Json::Bool(unchecked))]);
                    match r {
                        Err(p) => rep.violation(format!("c06:{}", p.signature()), format!("lookup of {} panicked at {}: {}", name.to_text(), p.location, p.message), w()),
                        Ok(Err((sig, detail))) => rep.violation(format!("c06:{}", sig), detail, w()),
                        Ok(Ok(class)) => {
                            rep.class(&format!("{}:below{}:unchecked{}:t{}", class, below as u8, unchecked as u8, rtype));
                            rep.hist(&format!("outcome:{}", class));
                        }
                    }
                }
            }
        }
        if case % 50 == 0 {
            rep.sample(|| zone_json(&rz));
        }
    }
}

// ---------------------------------------------------------------------
// C20
// ---------------------------------------------------------------------

type Snapshot = (Vec<(Vec<u8>, Vec<(u16, u32, Vec<Vec<u8>>)>)>, Vec<(Vec<u8>, u16, u32, Vec<Vec<u8>>)>, Option<(u32, Vec<Vec<u8>>)>, Option<(u32, Vec<Vec<u8>>)>);

fn snapshot(qz: &HashMapTreeZone) -> Snapshot {
    let rd = |s: &quandary::rr::RdataSet| -> Vec<Vec<u8>> { s.iter().map(|r| r.octets().to_vec()).collect() };
    let mut by_node: Vec<(Vec<u8>, Vec<(u16, u32, Vec<Vec<u8>>)>)> = qz
        .iter_by_node()
        .map(|(name, sets)| {
            let mut v: Vec<(u16, u32, Vec<Vec<u8>>)> = sets.map(|s| (u16::from(s.rr_type), u32::from(s.ttl), rd(&s.rdatas))).collect();
            v.sort();
            (name.wire_repr().to_vec(), v)
        })
        .collect();
    by_node.sort();
    let mut by_rrset: Vec<(Vec<u8>, u16, u32, Vec<Vec<u8>>)> = qz.iter_by_rrset().map(|(name, s)| (name.wire_repr().to_vec(), u16::from(s.rr_type), u32::from(s.ttl), rd(&s.rdatas))).collect();
    by_rrset.sort();
    let soa = qz.soa().map(|s| (u32::from(s.ttl), rd(&s.rdatas)));
    let ns = qz.ns().map(|s| (u32::from(s.ttl), rd(&s.rdatas)));
    (by_node, by_rrset, soa, ns)
}

fn model_snapshot(z: &RefZone) -> Snapshot {
    let mut by_node = Vec::new();
    for (k, spelled) in &z.node_names {
        let _ = k;
        let mut v: Vec<(u16, u32, Vec<Vec<u8>>)> = z.rrsets_at(spelled).iter().map(|s| (s.rtype, s.ttl, s.rdatas.clone())).collect();
        v.sort();
        by_node.push((spelled.wire(), v));
    }
    by_node.sort();
    let mut by_rrset: Vec<(Vec<u8>, u16, u32, Vec<Vec<u8>>)> = Vec::new();
    for (n, sets) in &by_node {
        for (t, ttl, rd) in sets {
            by_rrset.push((n.clone(), *t, *ttl, rd.clone()));
        }
    }
    by_rrset.sort();
    let soa = z.rrset(&z.apex.clone(), T_SOA).map(|s| (s.ttl, s.rdatas.clone()));
    let ns = z.rrset(&z.apex.clone(), T_NS).map(|s| (s.ttl, s.rdatas.clone()));
    (by_node, by_rrset, soa, ns)
}

pub fn run_c20(ctx: &Ctx, rep: &mut Report) {
    let n = if ctx.is_miri() { ctx.cases(4, 160) } else { ctx.cases(8_000, 100_000) };
    for case in ctx.case_range(n) {
        rep.current_case = case;
        let mut rng = ctx.rng("c20", case);
        let apex_plain = RName::simple(*rng.pick(&["z.", "a.z.", ".", "b.a.z."]));
        let apex = flip(&mut rng, &apex_plain);
        let class = *rng.pick(&[C_IN, C_IN, C_CH]);
        let recs = gen_small_zone(&mut rng, &apex, class, true);
        let mut rz = RefZone::new(apex.clone(), class);
        let result = panicmon::catch(|| {
            let mut qz = HashMapTreeZone::new(qname(&apex), Class::from(class), GluePolicy::Narrow);
            let mut problems: Vec<(String, String)> = Vec::new();
            let mut classes = Vec::new();
            for (i, rec) in recs.iter().enumerate() {
                let before = snapshot(&qz);
                let want = rz.add(rec.clone());
                let rdata: &Rdata = rec.rdata.as_slice().try_into().unwrap();
                let got = qz.add(&qname(&rec.owner), Type::from(rec.rtype), Class::from(rec.class), Ttl::from(rec.ttl), rdata).map_err(db_err);
                if got != want {
                    problems.push(("add-result".into(), format!("add #{} ({} CLASS{} TYPE{} ttl {}) returned {:?}, reference {:?}", i, rec.owner.to_text(), rec.class, rec.rtype, rec.ttl, got, want)));
                }
                if want.is_err() && got.is_err() {
                    let after = snapshot(&qz);
                    if after != before {
                        problems.push(("rejected-add-changed-zone".into(), format!("rejected add #{} ({} TYPE{}: {:?}) changed the zone contents", i, rec.owner.to_text(), rec.rtype, got)));
                    }
                }
                classes.push(format!("add:{:?}", want));
            }
            let got = snapshot(&qz);
            let want = model_snapshot(&rz);
            if got.0 != want.0 {
                problems.push(("iter_by_node".into(), format!("iter_by_node yields {} nodes, model has {}; or their RRsets differ", got.0.len(), want.0.len())));
            }
            if got.1 != want.1 {
                problems.push(("iter_by_rrset".into(), "iter_by_rrset differs from the model".into()));
            }
            if got.2 != want.2 {
                problems.push(("soa".into(), "soa() disagrees with the model".into()));
            }
            if got.3 != want.3 {
                problems.push(("ns".into(), "ns() disagrees with the model".into()));
            }
            // each node exactly once
            let mut seen = BTreeSet::new();
            for (name, _) in qz.iter_by_node() {
                if !seen.insert(RName::from_wire_all(name.wire_repr()).unwrap().lower()) {
                    problems.push(("node-twice".into(), format!("iter_by_node yields {} twice", name)));
                }
            }
            // default trait implementations agree as well
            (problems, classes, want.0.len(), want.1.len())
        });
        rep.eval();
        match result {
            Err(p) => rep.violation(format!("c20:{}", p.signature()), format!("zone store panicked at {}: {}", p.location, p.message), zone_json(&rz)),
            Ok((problems, classes, n_nodes, n_sets)) => {
                for (sig, detail) in problems {
                    rep.violation(format!("c20:{}", sig), detail, zone_json(&rz));
                }
                for c in classes {
                    rep.hist(&c);
                }
                rep.evals(recs.len() as u64);
                rep.class(&format!("nodes{}:sets{}:soa{}", n_nodes.min(20), n_sets.min(20), rz.soa().map(|s| s.rdatas.len()).unwrap_or(0)));
            }
        }
        if case % 300 == 0 {
            rep.sample(|| zone_json(&rz));
        }
    }
}

// ---------------------------------------------------------------------
// C21
// ---------------------------------------------------------------------

type Issue = (&'static str, Vec<u8>);

fn class_has_addrs(c: u16) -> bool {
    c == C_IN || c == C_CH
}

fn has_addrs(z: &RefZone, node: &RName) -> bool {
    z.rrset(node, T_A).is_some() || (z.class == C_IN && z.rrset(node, T_AAAA).is_some())
}

/// Reference checker: returns (required issues, allowed issues) or
/// Err if RDATA that must be interpreted is malformed.
fn ref_validate(z: &RefZone, wide: bool) -> Result<(BTreeSet<Issue>, BTreeSet<Issue>), ()> {
    let mut required: BTreeSet<Issue> = BTreeSet::new();
    let mut allowed: BTreeSet<Issue> = BTreeSet::new();
    let k = |n: &RName| n.lower().wire();
    match z.soa() {
        None => {
            required.insert(("MissingApexSoa", vec![]));
        }
        Some(s) if s.rdatas.len() != 1 => {
            required.insert(("TooManyApexSoas", vec![]));
        }
        _ => {}
    }
    let addr_check = |target: &RName, kind: &'static str, out: &mut BTreeSet<Issue>| match z.lookup(target, false) {
        Base::Found { node, .. } => {
            if !has_addrs(z, &node) {
                out.insert((kind, k(target)));
            }
        }
        Base::NxDomain => {
            out.insert((kind, k(target)));
        }
        _ => {}
    };
    match z.rrset(&z.apex.clone(), T_NS) {
        None => {
            required.insert(("MissingApexNs", vec![]));
        }
        Some(ns) => {
            if class_has_addrs(z.class) {
                for rd in &ns.rdatas {
                    let t = RName::from_wire_all(rd).ok_or(())?;
                    addr_check(&t, "MissingNsAddress", &mut required);
                }
            }
        }
    }
    for (key, spelled) in &z.node_names {
        let _ = key;
        let sets = z.rrsets_at(spelled);
        // occluded = some proper ancestor strictly below the apex owns NS
        let depth = spelled.0.len() - z.apex.0.len();
        let occluded = (1..depth).any(|up| z.rrset(&spelled.parent(up).unwrap(), T_NS).is_some());
        for set in &sets {
            match set.rtype {
                T_CNAME => {
                    if sets.len() != 1 {
                        required.insert(("OtherRecordsAtCname", k(spelled)));
                    }
                    if set.rdatas.len() != 1 {
                        required.insert(("DuplicateCname", k(spelled)));
                    }
                }
                T_MX if class_has_addrs(z.class) => {
                    for rd in &set.rdatas {
                        let t = rd.get(2..).and_then(RName::from_wire_all).ok_or(())?;
                        addr_check(&t, "MissingMxAddress", &mut required);
                    }
                }
                T_NS => {
                    let mut found: BTreeSet<Issue> = BTreeSet::new();
                    if spelled.is_wildcard() {
                        found.insert(("NsAtWildcard", k(spelled)));
                    }
                    if depth > 0 && class_has_addrs(z.class) {
                        for rd in &set.rdatas {
                            let t = RName::from_wire_all(rd).ok_or(())?;
                            match z.lookup(&t, false) {
                                Base::Found { node, .. } => {
                                    if !has_addrs(z, &node) {
                                        found.insert(("MissingNsAddress", k(&t)));
                                    }
                                }
                                Base::NxDomain => {
                                    found.insert(("MissingNsAddress", k(&t)));
                                }
                                Base::Referral { cut } => {
                                    if wide || cut.eq_ci(spelled) {
                                        let ok = match z.lookup(&t, true) {
                                            Base::Found { node, .. } => has_addrs(z, &node),
                                            _ => false,
                                        };
                                        if !ok {
                                            found.insert(("MissingGlue", k(&t)));
                                        }
                                    }
                                }
                                Base::WrongZone => {}
                            }
                        }
                    }
                    allowed.extend(found.iter().cloned());
                    if !occluded {
                        required.extend(found);
                    }
                }
                _ => {}
            }
        }
    }
    allowed.extend(required.iter().cloned());
    Ok((required, allowed))
}

fn issue_key(i: &ValidationIssue) -> (Issue, bool) {
    let lw = |n: &Name| RName::from_wire_all(n.wire_repr()).unwrap().lower().wire();
    let key: Issue = match i {
        ValidationIssue::MissingApexSoa => ("MissingApexSoa", vec![]),
        ValidationIssue::TooManyApexSoas => ("TooManyApexSoas", vec![]),
        ValidationIssue::MissingApexNs => ("MissingApexNs", vec![]),
        ValidationIssue::MissingNsAddress(n) => ("MissingNsAddress", lw(n)),
        ValidationIssue::MissingMxAddress(n) => ("MissingMxAddress", lw(n)),
        ValidationIssue::MissingGlue(n) => ("MissingGlue", lw(n)),
        ValidationIssue::DuplicateCname(n) => ("DuplicateCname", lw(n)),
        ValidationIssue::OtherRecordsAtCname(n) => ("OtherRecordsAtCname", lw(n)),
        ValidationIssue::NsAtWildcard(n) => ("NsAtWildcard", lw(n)),
    };
    (key, i.is_error())
}

fn show_issue(i: &Issue) -> String {
    format!("{}({})", i.0, RName::from_wire_all(&i.1).map(|n| n.to_text()).unwrap_or_default())
}

pub fn run_c21(ctx: &Ctx, rep: &mut Report) {
    let n = if ctx.is_miri() { ctx.cases(4, 160) } else { ctx.cases(12_000, 150_000) };
    for case in ctx.case_range(n) {
        rep.current_case = case;
        let mut rng = ctx.rng("c21", case);
        let apex = RName::simple(*rng.pick(&["z.", "a.z.", ".", "b.a.z."]));
        let class = *rng.pick(&[C_IN, C_IN, C_CH, C_HS]);
        let wide = rng.bool();
        let mut recs = gen_small_zone(&mut rng, &apex, class, false);
        if rng.chance(1, 12) {
            // malformed RDATA in a type validation must interpret
            let i = rng.below(recs.len());
            if matches!(recs[i].rtype, T_NS | T_MX) {
                recs[i].rdata.push(7);
            }
        }
        let (rz, qz) = build(&apex, class, if wide { GluePolicy::Wide } else { GluePolicy::Narrow }, &recs);
        rep.eval();
        let want = ref_validate(&rz, wide);
        let got = panicmon::catch(|| qz.validate().map(|v| v.iter().map(issue_key).collect::<Vec<_>>()));
        let w = || Json::obj(vec![("zone", zone_json(&rz)), ("glue_policy", Json::s(if wide { "wide" } else { "narrow" }))]);
        match (got, want) {
            (Err(p), _) => rep.violation(format!("c21:{}", p.signature()), format!("validate panicked at {}: {}", p.location, p.message), w()),
            (Ok(Err(_)), Err(())) => rep.class("invalid-rdata"),
            (Ok(Err(e)), Ok(_)) => rep.violation("c21:unexpected-error", format!("validate fails with {:?} on a zone whose interpreted RDATA is well formed", e), w()),
            (Ok(Ok(_)), Err(())) => rep.violation("c21:missed-invalid-rdata", "validate succeeds although NS/MX RDATA it must interpret is malformed".to_string(), w()),
            (Ok(Ok(issues)), Ok((required, allowed))) => {
                let got_set: BTreeSet<Issue> = issues.iter().map(|(k, _)| k.clone()).collect();
                if got_set.len() != issues.len() {
                    rep.violation("c21:duplicate-issue", "an issue is reported twice".to_string(), w());
                }
                for r in &required {
                    if !got_set.contains(r) {
                        rep.violation(format!("c21:missed:{}", r.0), format!("validation does not report {}", show_issue(r)), w());
                    }
                }
                for g in &got_set {
                    if !allowed.contains(g) {
                        rep.violation(format!("c21:spurious:{}", g.0), format!("validation reports {} which the reference checker does not find", show_issue(g)), w());
                    }
                }
                for (k, is_err) in &issues {
                    let want_err = !matches!(k.0, "MissingMxAddress" | "NsAtWildcard");
                    if *is_err != want_err {
                        rep.violation(format!("c21:severity:{}", k.0), format!("{} has is_error() = {}", show_issue(k), is_err), w());
                    }
                }
                let mut kinds: Vec<&str> = got_set.iter().map(|i| i.0).collect();
                kinds.dedup();
                rep.class(&format!("{}:{}:{}", class, wide as u8, kinds.join("+")));
                for k in kinds {
                    rep.hist(&format!("issue:{}", k));
                }
            }
        }
        if case % 500 == 0 {
            rep.sample(|| w());
        }
    }
}

// ---------------------------------------------------------------------
// C22
// ---------------------------------------------------------------------

type QCat = HashMapTreeCatalog<HashMapTreeZone, u64>;

fn entry_id<Z: Zone>(e: &Entry<Z, u64>) -> u64 {
    *e.metadata()
}

pub fn run_c22(ctx: &Ctx, rep: &mut Report) {
    let n = if ctx.is_miri() { ctx.cases(1, 32) } else { ctx.cases(12_000, 150_000) };
    let pool: Vec<RName> = ["z.", "a.z.", "b.a.z.", "c.b.a.z.", "b.z.", ".", "a.b.z.", "other.", "A.Z."].iter().map(|s| RName::simple(s)).collect();
    let classes = [C_IN, C_CH, 65280u16];
    for case in ctx.case_range(n) {
        rep.current_case = case;
        let mut rng = ctx.rng("c22", case);
        let mut model: BTreeMap<(u16, Vec<u8>), (u64, RName)> = BTreeMap::new();
        let mut log: Vec<String> = Vec::new();
        let mut next_id = 1u64;
        let n_ops = if ctx.is_miri() { rng.range(2, 7) } else { rng.range(2, 24) };
        let result = panicmon::catch(|| {
            let mut cat: QCat = QCat::new();
            let mut problems: Vec<(String, String)> = Vec::new();
            for _ in 0..n_ops {
                let name = rng.pick(&pool).clone();
                let class = *rng.pick(&classes);
                let key = (class, name.lower().wire());
                if rng.chance(3, 5) {
                    let id = next_id;
                    next_id += 1;
                    let entry = match rng.below(3) {
                        0 => Entry::NotYetLoaded(qname(&name), Class::from(class), id),
                        1 => Entry::FailedToLoad(qname(&name), Class::from(class), id),
                        _ => Entry::Loaded(Arc::new(HashMapTreeZone::new(qname(&name), Class::from(class), GluePolicy::Narrow)), id),
                    };
                    log.push(format!("insert({} CLASS{} id {})", name.to_text(), class, id));
                    let old = cat.insert(entry).map(|e| entry_id(&e));
                    let want_old = model.insert(key, (id, name.clone())).map(|(i, _)| i);
                    if old != want_old {
                        problems.push(("insert-return".into(), format!("insert returned {:?}, expected {:?}", old, want_old)));
                    }
                } else {
                    log.push(format!("remove({} CLASS{})", name.to_text(), class));
                    let old = cat.remove(&qname(&name), Class::from(class)).map(|e| entry_id(&e));
                    let want_old = model.remove(&key).map(|(i, _)| i);
                    if old != want_old {
                        problems.push(("remove-return".into(), format!("remove returned {:?}, expected {:?}", old, want_old)));
                    }
                }
                // compare after every step
                let mut ids: Vec<u64> = cat.iter().map(entry_id).collect();
                ids.sort();
                let mut want_ids: Vec<u64> = model.values().map(|(i, _)| *i).collect();
                want_ids.sort();
                if ids != want_ids {
                    problems.push(("iter".into(), format!("iter yields entries {:?}, expected {:?}", ids, want_ids)));
                }
                for probe_base in &pool {
                    for extra in [None, Some(&b"x"[..]), Some(&b"a"[..])] {
                        let probe = match extra {
                            None => probe_base.clone(),
                            Some(l) => probe_base.child(l),
                        };
                        for &c in &classes {
                            let want_lookup = model.iter().filter(|((mc, _), (_, n))| *mc == c && probe.is_at_or_below(n)).max_by_key(|(_, (_, n))| n.0.len()).map(|(_, (i, _))| *i);
                            let got_lookup = cat.lookup(&qname(&probe), Class::from(c)).map(entry_id);
                            if got_lookup != want_lookup {
                                problems.push(("lookup".into(), format!("lookup({} CLASS{}) finds entry {:?}, expected {:?}", probe.to_text(), c, got_lookup, want_lookup)));
                            }
                            let want_get = model.get(&(c, probe.lower().wire())).map(|(i, _)| *i);
                            let got_get = cat.get(&qname(&probe), Class::from(c)).map(entry_id);
                            if got_get != want_get {
                                problems.push(("get".into(), format!("get({} CLASS{}) finds entry {:?}, expected {:?}", probe.to_text(), c, got_get, want_get)));
                            }
                        }
                    }
                }
                if !problems.is_empty() {
                    break;
                }
            }
            (problems, model.len())
        });
        rep.eval();
        rep.evals(n_ops as u64);
        let w = Json::obj(vec![("history", Json::Arr(log.iter().map(|s| Json::s(s.clone())).collect()))]);
        match result {
            Err(p) => rep.violation(format!("c22:{}", p.signature()), format!("catalog panicked at {}: {} after {:?}", p.location, p.message, log), w.clone()),
            Ok((problems, final_len)) => {
                for (sig, detail) in problems.into_iter().take(1) {
                    rep.violation(format!("c22:{}", sig), format!("{} after {:?}", detail, log), w.clone());
                }
                rep.class(&format!("ops{}:final{}", n_ops.min(24), final_len));
            }
        }
        if case % 500 == 0 {
            rep.sample(|| w.clone());
        }
    }
    // SingleZoneCatalog: lookup / get against the same rules
    if ctx.only_case.is_none() {
        let mut rng = ctx.rng("c22-single", 0);
        for _ in 0..(if ctx.is_miri() { 4 } else { 200 }) {
            let name = rng.pick(&pool).clone();
            let class = *rng.pick(&classes);
            let cat: SingleZoneCatalog<HashMapTreeZone, u64> = SingleZoneCatalog::new(Entry::NotYetLoaded(qname(&name), Class::from(class), 7));
            for probe_base in &pool {
                for extra in [None, Some(&b"x"[..])] {
                    let probe = match extra {
                        None => probe_base.clone(),
                        Some(l) => probe_base.child(l),
                    };
                    for &c in &classes {
                        rep.eval();
                        let want_lookup = c == class && probe.is_at_or_below(&name);
                        let want_get = c == class && probe.eq_ci(&name);
                        if cat.lookup(&qname(&probe), Class::from(c)).is_some() != want_lookup || cat.get(&qname(&probe), Class::from(c)).is_some() != want_get {
                            rep.violation("c22:single-zone-catalog", format!("SingleZoneCatalog({} CLASS{}) lookup/get of {} CLASS{} disagrees with the rule", name.to_text(), class, probe.to_text(), c), Json::Null);
                        }
                    }
                }
            }
        }
        rep.class("single-zone-catalog");
    }
}
