use crate::report::Report;
use crate::Ctx;

pub mod server;
pub mod zone;
pub mod tsig;
pub mod writer;
pub mod rrl;
pub mod c14;
pub mod c15;
pub mod c16;
pub mod c17;
pub mod c18;
pub mod c19;

pub fn run(ctx: &Ctx, rep: &mut Report) -> bool {
    match ctx.prop.as_str() {
        "c01" | "c07" => {
            server::run(ctx, rep, &ctx.prop);
            server::run_single_zone(ctx, rep, &ctx.prop);
        }
        "c02" | "c03" | "c04" | "c05" | "c08" | "c09" => server::run(ctx, rep, &ctx.prop),
        "c06" => zone::run_c06(ctx, rep),
        "c10" => tsig::run_c10(ctx, rep),
        "c29" => pool::run(ctx, rep),
        "c30" => io::run(ctx, rep),
        "c31" => daemon::run(ctx, rep),
        "c32" => swap::run(ctx, rep),
        "c23" => zonefile::run_c23(ctx, rep),
        "c24" => zonefile::run_c24(ctx, rep),
        "c25" => zonefile::run_c25(ctx, rep),
        "c26" => rrl::run_c26(ctx, rep),
        "c27" => rrl::run_c27(ctx, rep),
        "c28" => rrl::run_c28(ctx, rep),
        "c12" | "c13" => writer::run(ctx, rep, &ctx.prop),
        "c11" => tsig::run_c11(ctx, rep),
        "c20" => zone::run_c20(ctx, rep),
        "c21" => zone::run_c21(ctx, rep),
        "c22" => zone::run_c22(ctx, rep),
        "c14" => c14::run(ctx, rep),
        "c15" => c15::run(ctx, rep),
        "c16" => c16::run(ctx, rep),
        "c17" => c17::run(ctx, rep),
        "c18" => c18::run(ctx, rep),
        "c19" => c19::run(ctx, rep),
        _ => return false,
    }
    true
}

/// Debug helper: `qv dbg-req <hex request> [tcp]` runs one request
/// against an empty catalog and prints the classification and response.
pub fn debug_request(hexreq: &str, tcp: bool) {
    use crate::report::{hex, unhex};
    let req = unhex(hexreq).expect("hex");
    let p = crate::reqclass::classify(&req);
    println!("P: stop={:?} opt_reached={} opt={:?} tsig={} question={:?}", p.stop, p.opt_reached, p.opt, p.tsig.is_some(), p.question.as_ref().map(|q| (q.name.to_text(), q.qtype, q.qclass)));
    let cat = std::sync::Arc::new(crate::gen::QCatalog::new());
    let server = crate::srv::make_server(cat, &crate::srv::ServerCfg { payload: 1232, rrl: None, keys: vec![] });
    let mut bufs = crate::srv::Buffers::new(1232);
    match crate::srv::handle(&server, &req, crate::srv::LOCALHOST, tcp, &mut bufs) {
        Ok(Some(r)) => {
            println!("response: {}", hex(&r));
            match crate::wire::decode(&r) {
                Ok(m) => println!("rcode {} aa {} tc {} an {} ns {} ar {}", m.ext_rcode(), m.header.aa(), m.header.tc(), m.header.ancount, m.header.nscount, m.header.arcount),
                Err(e) => println!("undecodable: {}", e),
            }
        }
        Ok(None) => println!("no response"),
        Err(p) => println!("panic at {}: {}", p.location, p.message),
    }
}
pub mod zonefile;
pub mod pool;
pub mod swap;
pub mod io;
pub mod daemon;
