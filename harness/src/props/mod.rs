use crate::report::Report;
use crate::Ctx;

pub mod c14;
pub mod c15;
pub mod c16;
pub mod c17;
pub mod c18;
pub mod c19;

pub fn run(ctx: &Ctx, rep: &mut Report) -> bool {
    match ctx.prop.as_str() {
        "c14" => c14::run(ctx, rep),
        "c15" => c15::run(ctx, rep),
        "c16" => c16::run(ctx, rep),
        "c17" => c17::run(ctx, rep),
        "c18" => c18::run(ctx, rep),
        "c19" => c19::run(ctx, rep),
        _ => return false,
    }
    true
}
