use crate::report::Report;
use crate::Ctx;

pub mod c17;

pub fn run(ctx: &Ctx, rep: &mut Report) -> bool {
    match ctx.prop.as_str() {
        "c17" => c17::run(ctx, rep),
        _ => return false,
    }
    true
}
