//! C17 — TYPE / CLASS / QTYPE / QCLASS / opcode / RCODE codes round-trip
//! through text. Exhaustive over every 16-bit (8-bit) value; the shard
//! `i` of `n` takes the values congruent to `i` mod `n`.

use std::str::FromStr;

use quandary::class::Class;
use quandary::message::{ExtendedRcode, Opcode, Qclass, Qtype, Rcode};
use quandary::rr::Type;

use crate::report::{Json, Report};
use crate::Ctx;

// Mnemonic tables from RFC 1035 §3.2.2–3.2.5, RFC 3596, RFC 2782,
// RFC 6891, RFC 8945, RFC 2136 (NONE).
const TYPES: &[(&str, u16)] = &[
    ("A", 1),
    ("NS", 2),
    ("MD", 3),
    ("MF", 4),
    ("CNAME", 5),
    ("SOA", 6),
    ("MB", 7),
    ("MG", 8),
    ("MR", 9),
    ("NULL", 10),
    ("WKS", 11),
    ("PTR", 12),
    ("HINFO", 13),
    ("MINFO", 14),
    ("MX", 15),
    ("TXT", 16),
    ("AAAA", 28),
    ("SRV", 33),
    ("OPT", 41),
    ("TSIG", 250),
];
const QTYPES_ONLY: &[(&str, u16)] = &[
    ("IXFR", 251),
    ("AXFR", 252),
    ("MAILB", 253),
    ("MAILA", 254),
    ("ANY", 255),
    ("*", 255),
];
const CLASSES: &[(&str, u16)] = &[("IN", 1), ("CH", 3), ("HS", 4)];
const QCLASSES_ONLY: &[(&str, u16)] = &[("NONE", 254), ("ANY", 255), ("*", 255)];

fn case_variants(s: &str) -> Vec<String> {
    let chars: Vec<char> = s.chars().collect();
    let letters: Vec<usize> = chars
        .iter()
        .enumerate()
        .filter(|(_, c)| c.is_ascii_alphabetic())
        .map(|(i, _)| i)
        .collect();
    let mut out = Vec::new();
    for mask in 0u32..(1u32 << letters.len()) {
        let mut v = chars.clone();
        for (bit, &idx) in letters.iter().enumerate() {
            v[idx] = if mask & (1 << bit) != 0 {
                v[idx].to_ascii_lowercase()
            } else {
                v[idx].to_ascii_uppercase()
            };
        }
        out.push(v.into_iter().collect());
    }
    out
}

fn viol(rep: &mut Report, sig: &str, detail: String) {
    rep.violation(
        format!("c17:{}", sig),
        detail.clone(),
        Json::obj(vec![("what", Json::s(detail))]),
    );
}

macro_rules! roundtrip16 {
    ($rep:expr, $ty:ty, $kind:expr, $v:expr, $prefix:expr) => {{
        let v: u16 = $v;
        let value = <$ty>::from(v);
        let text = value.to_string();
        $rep.eval();
        match <$ty>::from_str(&text) {
            Ok(back) if u16::from(back) == v => {}
            Ok(back) => viol(
                $rep,
                &format!("{}-roundtrip", $kind),
                format!("{} {} renders as {:?} which parses to {}", $kind, v, text, u16::from(back)),
            ),
            Err(e) => viol(
                $rep,
                &format!("{}-roundtrip", $kind),
                format!("{} {} renders as {:?} which does not parse: {}", $kind, v, text, e),
            ),
        }
        if u16::from(value) != v {
            viol($rep, &format!("{}-u16", $kind), format!("{} from({}) gives {}", $kind, v, u16::from(value)));
        }
        for prefix in [$prefix.to_string(), $prefix.to_lowercase(), {
            let mut p = $prefix.to_lowercase();
            p[..1].make_ascii_uppercase();
            p
        }] {
            let generic = format!("{}{}", prefix, v);
            $rep.eval();
            match <$ty>::from_str(&generic) {
                Ok(back) if u16::from(back) == v => {}
                other => viol(
                    $rep,
                    &format!("{}-generic", $kind),
                    format!("{:?} parses to {:?}", generic, other.map(u16::from)),
                ),
            }
        }
        $rep.class(&format!("{}:{}", $kind, v));
        if v % 9973 == 0 {
            $rep.sample(|| Json::obj(vec![("kind", Json::s($kind)), ("value", Json::Int(v as i128)), ("text", Json::s(text.clone()))]));
        }
    }};
}

macro_rules! mnemonics {
    ($rep:expr, $ty:ty, $kind:expr, $table:expr) => {{
        for (m, code) in $table.iter() {
            for variant in case_variants(m) {
                $rep.eval();
                match <$ty>::from_str(&variant) {
                    Ok(back) if u16::from(back) == *code => {}
                    other => viol(
                        $rep,
                        &format!("{}-mnemonic", $kind),
                        format!("{:?} parses to {:?}, expected {}", variant, other.map(u16::from), code),
                    ),
                }
                $rep.class(&format!("{}-mn:{}", $kind, variant));
            }
        }
    }};
}

pub fn run(ctx: &Ctx, rep: &mut Report) {
    let n = ctx.nshards;
    let me = ctx.shard;
    for v in 0u32..65536 {
        if (v as u64) % n != me {
            continue;
        }
        // under Miri (about 1 ms per value) the assigned and boundary regions are run in full
        // and the uniform middle is sampled; the native builds run every value
        if ctx.is_miri() && v >= 300 && v < 65200 && v % 61 != 0 {
            continue;
        }
        let v = v as u16;
        roundtrip16!(rep, Type, "TYPE", v, "TYPE");
        roundtrip16!(rep, Qtype, "QTYPE", v, "TYPE");
        roundtrip16!(rep, Class, "CLASS", v, "CLASS");
        roundtrip16!(rep, Qclass, "QCLASS", v, "CLASS");

        // Extended RCODEs convert to RCODEs exactly when below 16.
        rep.eval();
        let ext = ExtendedRcode::from(v);
        if u16::from(ext) != v {
            viol(rep, "extrcode-u16", format!("ExtendedRcode::from({}) gives {}", v, u16::from(ext)));
        }
        match Rcode::try_from(ext) {
            Ok(r) => {
                if v >= 16 || u8::from(r) as u16 != v {
                    viol(rep, "extrcode-to-rcode", format!("extended RCODE {} converts to RCODE {}", v, u8::from(r)));
                }
            }
            Err(_) => {
                if v < 16 {
                    viol(rep, "extrcode-to-rcode", format!("extended RCODE {} does not convert to an RCODE", v));
                }
            }
        }
        if v < 16 {
            let r = Rcode::try_from(v as u8).unwrap();
            if u16::from(ExtendedRcode::from(r)) != v {
                viol(rep, "rcode-to-ext", format!("RCODE {} widens to {}", v, u16::from(ExtendedRcode::from(r))));
            }
        }
        rep.class(&format!("XRCODE:{}", v));
    }

    if me == 0 {
        // 8-bit conversions: exactly the 4-bit values are accepted.
        for v in 0u16..256 {
            let v = v as u8;
            rep.eval();
            match Opcode::try_from(v) {
                Ok(o) => {
                    if v >= 16 || u8::from(o) != v {
                        viol(rep, "opcode", format!("Opcode::try_from({}) = Ok({})", v, u8::from(o)));
                    }
                }
                Err(_) => {
                    if v < 16 {
                        viol(rep, "opcode", format!("Opcode::try_from({}) rejected", v));
                    }
                }
            }
            rep.eval();
            match Rcode::try_from(v) {
                Ok(r) => {
                    if v >= 16 || u8::from(r) != v {
                        viol(rep, "rcode", format!("Rcode::try_from({}) = Ok({})", v, u8::from(r)));
                    }
                }
                Err(_) => {
                    if v < 16 {
                        viol(rep, "rcode", format!("Rcode::try_from({}) rejected", v));
                    }
                }
            }
            rep.class(&format!("OP/RC:{}", v));
        }

        mnemonics!(rep, Type, "TYPE", TYPES);
        mnemonics!(rep, Qtype, "QTYPE", TYPES);
        mnemonics!(rep, Qtype, "QTYPE", QTYPES_ONLY);
        mnemonics!(rep, Class, "CLASS", CLASSES);
        mnemonics!(rep, Qclass, "QCLASS", CLASSES);
        mnemonics!(rep, Qclass, "QCLASS", QCLASSES_ONLY);

        // Q-only mnemonics are not RR types / classes.
        for (m, _) in QTYPES_ONLY {
            rep.eval();
            if Type::from_str(m).is_ok() {
                viol(rep, "type-accepts-qtype", format!("Type parses QTYPE-only mnemonic {:?}", m));
            }
        }
        for (m, _) in QCLASSES_ONLY {
            rep.eval();
            if Class::from_str(m).is_ok() {
                viol(rep, "class-accepts-qclass", format!("Class parses QCLASS-only mnemonic {:?}", m));
            }
        }
        // Out-of-range and malformed generic forms are rejected.
        for bad in ["TYPE65536", "TYPE", "TYPE-1", "TYPE1x", "TYPE 1", "TYP1", "", "TYPE99999999999"] {
            rep.eval();
            if Type::from_str(bad).is_ok() || Qtype::from_str(bad).is_ok() {
                viol(rep, "type-accepts-garbage", format!("{:?} parses as a type", bad));
            }
        }
        for bad in ["CLASS65536", "CLASS", "CLASS-1", "CLASS1x", "CLAS1", "", "CLASS99999999999"] {
            rep.eval();
            if Class::from_str(bad).is_ok() || Qclass::from_str(bad).is_ok() {
                viol(rep, "class-accepts-garbage", format!("{:?} parses as a class", bad));
            }
        }
    }
    rep.extra("exhaustive", Json::Bool(true));
}
