//! C26 (token bucket over virtual time), C27 (stream grouping) and
//! C28 (counting under concurrency) — response rate limiting observed
//! at the `Server::handle_message` boundary.

use std::net::{IpAddr, Ipv4Addr, Ipv6Addr};
use std::sync::atomic::{AtomicU64, AtomicUsize, Ordering};
use std::sync::{Arc, Barrier};
use std::time::Instant;

use quandary::server::Server;

use crate::gen::*;
use crate::msgbuild::*;
use crate::names::RName;
use crate::props::server::m02;
use crate::report::{hex, Json, Report};
use crate::rng::Rng;
use crate::srv::*;
use crate::wire::*;
use crate::zonemodel::*;
use crate::Ctx;

#[derive(Clone, Copy, Debug, PartialEq, Eq)]
pub enum Outcome {
    Sent,
    Slipped,
    Dropped,
}

/// A small zone: explicit names, a wildcard, and everything else NXDOMAIN.
fn rrl_zone() -> (RefCatalog, QCatalog) {
    let apex = RName::simple("rrl.test.");
    let mut recs = vec![
        RRec { owner: apex.clone(), rtype: T_SOA, class: C_IN, ttl: 300, rdata: soa_rdata(&apex.child(b"ns"), &apex.child(b"hm"), 1, 300) },
        RRec { owner: apex.clone(), rtype: T_NS, class: C_IN, ttl: 300, rdata: RName::simple("ns.rrl.test.").wire() },
        RRec { owner: RName::simple("ns.rrl.test."), rtype: T_A, class: C_IN, ttl: 300, rdata: vec![192, 0, 2, 1] },
        RRec { owner: RName::simple("www.rrl.test."), rtype: T_A, class: C_IN, ttl: 300, rdata: vec![192, 0, 2, 2] },
        RRec { owner: RName::simple("mail.rrl.test."), rtype: T_A, class: C_IN, ttl: 300, rdata: vec![192, 0, 2, 3] },
        // same octets as "mail.rrl.test." with the label boundaries elsewhere: different names,
        // hence different NOERROR streams
        RRec { owner: RName::simple("ma.il.rrl.test."), rtype: T_A, class: C_IN, ttl: 300, rdata: vec![192, 0, 2, 6] },
        RRec { owner: RName::simple("m.ail.rrl.test."), rtype: T_A, class: C_IN, ttl: 300, rdata: vec![192, 0, 2, 7] },
        RRec { owner: RName::simple("*.wild.rrl.test."), rtype: T_A, class: C_IN, ttl: 300, rdata: vec![192, 0, 2, 4] },
        RRec { owner: RName::simple("*.other.rrl.test."), rtype: T_A, class: C_IN, ttl: 300, rdata: vec![192, 0, 2, 5] },
        // a wildcard that owns a CNAME: answers synthesized from it form one stream as well
        RRec { owner: RName::simple("*.cn.rrl.test."), rtype: T_CNAME, class: C_IN, ttl: 300, rdata: RName::simple("www.rrl.test.").wire() },
    ];
    recs.push(RRec { owner: RName::simple("txt.rrl.test."), rtype: T_TXT, class: C_IN, ttl: 300, rdata: vec![1, b'x'] });
    // a wildcard whose TXT RRset does not fit in 512 octets (answers are truncated over plain UDP)
    for i in 0..3u8 {
        let mut rd = vec![250u8];
        rd.extend(std::iter::repeat(b'a' + i).take(250));
        recs.push(RRec { owner: RName::simple("*.big.rrl.test."), rtype: T_TXT, class: C_IN, ttl: 300, rdata: rd });
    }
    let (rz, qz, d) = build_zone(&apex, C_IN, &recs);
    assert!(d.is_empty());
    let mut cat = QCatalog::new();
    cat.insert(quandary::db::catalog::Entry::Loaded(Arc::new(qz), 1));
    let reference = RefCatalog { entries: vec![RefEntry { name: apex, class: C_IN, state: EntryState::Loaded(rz), id: 1 }] };
    (reference, cat)
}

fn query(id: u16, name: &RName, qtype: u16, opcode: u16) -> Vec<u8> {
    let mut spec = MsgSpec { id, flags: opcode << 11, ..Default::default() };
    spec.questions.push((Some(NameEnc::Plain(name.clone())), qtype, C_IN));
    encode(&spec).0
}

/// Classifies what came back for a query whose normal answer would be
/// `expect_data` records (sent = the normal response; slipped = TC set
/// and no records besides OPT/TSIG; dropped = nothing).
fn classify_outcome(resp: &Option<Vec<u8>>) -> Result<Outcome, String> {
    match resp {
        None => Ok(Outcome::Dropped),
        Some(r) => {
            let m = m02(r)?;
            if m.header.tc() {
                if m.data_records().count() != 0 {
                    return Err("slipped response (TC set) carries records".into());
                }
                Ok(Outcome::Slipped)
            } else {
                Ok(Outcome::Sent)
            }
        }
    }
}

// =====================================================================
// C26
// =====================================================================

/// Reference token bucket (u128 arithmetic, no overflow anywhere).
struct Bucket {
    rate: u128,
    limit: u128,
    used: u128,
    started: bool,
}

impl Bucket {
    /// Advances time by `secs` whole seconds and asks for one response.
    fn step(&mut self, secs: u128) -> bool {
        if !self.started {
            // the first response of a stream is always sent
            self.started = true;
            self.used = 1;
            return true;
        }
        if secs >= 1 {
            self.used = self.used.saturating_sub(self.rate * secs);
        }
        if self.used >= self.limit {
            false
        } else {
            self.used += 1;
            true
        }
    }
}

/// A history in real time with sub-second gaps: the fraction of a second that a refill does not
/// consume must be carried over to the next refill (the virtual clock of the main workload moves
/// in whole seconds only and cannot see this).
fn c26_fractional(rep: &mut Report, cat: &Arc<QCatalog>, slip: usize) {
    let cfg = ServerCfg { payload: 1232, rrl: Some(RrlCfg { noerror: 1, nxdomain: 1, error: 1, window: 3, slip, v4_prefix: 24, v6_prefix: 56, size: 8 }), keys: vec![] };
    let server = make_server(cat.clone(), &cfg);
    let mut bufs = Buffers::new(1232);
    let name = RName::simple("www.elsewhere."); // REFUSED: the error category
    let mut send = |id: u16| -> Result<(Instant, Outcome, Instant), String> {
        let before = Instant::now();
        let resp = handle(&server, &query(id, &name, T_A, 0), LOCALHOST, false, &mut bufs).map_err(|p| format!("panic at {}: {}", p.location, p.message))?;
        let after = Instant::now();
        Ok((before, classify_outcome(&resp)?, after))
    };
    let limited = |o: Outcome| if slip == 0 { o == Outcome::Dropped } else { o == Outcome::Slipped };
    let mut trace: Vec<String> = Vec::new();
    let run = (|| -> Result<Option<String>, String> {
        // fill the bucket: three sent, the fourth limited
        let (first_before, o1, first_after) = send(1)?;
        let (_, o2, _) = send(2)?;
        let (_, o3, _) = send(3)?;
        let (_, o4, fourth_after) = send(4)?;
        trace.push(format!("t=0: {:?} {:?} {:?} {:?}", o1, o2, o3, o4));
        if fourth_after.duration_since(first_before).as_secs_f64() > 0.9 {
            return Err("timing".into());
        }
        if !(o1 == Outcome::Sent && o2 == Outcome::Sent && o3 == Outcome::Sent && limited(o4)) {
            return Ok(Some("the bucket of capacity 3 did not fill as expected".into()));
        }
        // one virtual second plus 0.6 real seconds: one refill, 0.6 s carried over
        server.verif_rrl_shift(1);
        std::thread::sleep(std::time::Duration::from_millis(600));
        let (_a_before, oa, _) = send(5)?;
        // (the bounds below must hold for the second request of each pair as well: if it is
        // delayed past the next whole second, a further refill is legitimate)
        let (_, oa2, a_after) = send(6)?;
        trace.push(format!("t=1.6: {:?} {:?}", oa, oa2));
        // another 0.55 real seconds: 1.15 s since the refill instant, so one more refill is due
        std::thread::sleep(std::time::Duration::from_millis(550));
        let (b_before, ob, _) = send(7)?;
        let (_, ob2, b_after) = send(8)?;
        trace.push(format!("t=2.15: {:?} {:?}", ob, ob2));
        // only judge when the real clock leaves no doubt about the whole seconds involved
        let e1_max = a_after.duration_since(first_before).as_secs_f64();
        let e2_min = b_before.duration_since(first_after).as_secs_f64();
        let e2_max = b_after.duration_since(first_before).as_secs_f64();
        if e1_max > 0.9 || e2_min < 1.05 || e2_max > 1.9 {
            return Err("timing".into());
        }
        if !(oa == Outcome::Sent && limited(oa2)) {
            return Ok(Some(format!("after 1 s + {:.2} s exactly one response is due, got {:?} then {:?}", e1_max, oa, oa2)));
        }
        if !(ob == Outcome::Sent && limited(ob2)) {
            return Ok(Some(format!("{:.2}-{:.2} s after the previous refill instant exactly one more response is due (the unused fraction of a second carries over), got {:?} then {:?}", e2_min, e2_max, ob, ob2)));
        }
        Ok(None)
    })();
    rep.eval();
    match run {
        Err(e) if e == "timing" => rep.hist("fractional:discarded-timing"),
        Err(e) => rep.violation("c26:fractional:panic-or-malformed", e, Json::Null),
        Ok(Some(detail)) => rep.violation(format!("c26:fractional-carry:slip{}", slip), format!("rate 1 window 3 slip {}: {}", slip, detail), Json::obj(vec![("trace", Json::Arr(trace.iter().map(|t| Json::s(t.clone())).collect()))])),
        Ok(None) => {
            rep.class(&format!("fractional:slip{}", slip));
            rep.hist("fractional:judged");
        }
    }
}

pub fn run_c26(ctx: &Ctx, rep: &mut Report) {
    let n = ctx.cases(3_000, 40_000);
    let (_reference, cat) = rrl_zone();
    let cat = Arc::new(cat);
    for case in ctx.case_range(n) {
        rep.current_case = case;
        let mut rng = ctx.rng("c26", case);
        if case % 64 == 7 && !ctx.is_miri() && (case / 64) < 6 {
            c26_fractional(rep, &cat, (case / 64 % 2) as usize);
        }
        let rate: u32 = *rng.pick(&[1u32, 1, 2, 3, 7, 100, 1_000_000, 1 << 31]);
        let window: u32 = loop {
            let w = *rng.pick(&[1u32, 1, 2, 15, 60, 4000]);
            if (rate as u64) * (w as u64) < (1u64 << 32) {
                break w;
            }
        };
        let slip = *rng.pick(&[0usize, 1, 2, 5]);
        let category = rng.below(3); // 0 NOERROR, 1 NXDOMAIN, 2 error (REFUSED)
        let cfg = ServerCfg {
            payload: 1232,
            rrl: Some(RrlCfg { noerror: if category == 0 { rate } else { 1 }, nxdomain: if category == 1 { rate } else { 1 }, error: if category == 2 { rate } else { 1 }, window, slip, v4_prefix: 24, v6_prefix: 56, size: *rng.pick(&[1usize, 3, 64]) }),
            keys: vec![],
        };
        // (a small table: the time-shift hook walks every bucket, and a
        // single stream cannot collide with itself)
        let server = make_server(cat.clone(), &cfg);
        let mut bufs = Buffers::new(1232);
        let name = match category {
            0 => RName::simple("www.rrl.test."),
            1 => RName::simple("nx.rrl.test."),
            _ => RName::simple("www.elsewhere."),
        };
        let mut bucket = Bucket { rate: rate as u128, limit: rate as u128 * window as u128, used: 0, started: false };
        let steps = rng.range(5, 400);
        let capacity = rate as u64 * window as u64;
        let interesting_gap = (1u64 << 32) / rate as u64;
        let started = Instant::now();
        let mut history: Vec<(u64, Outcome)> = Vec::new();
        let mut mismatch: Option<(usize, String)> = None;
        let mut n_limited = 0;
        // small capacities: bursts of zero gaps exhaust the bucket; large ones: mostly gaps
        let burst_bias = if capacity <= 200 { 5 } else { 1 };
        for step in 0..steps {
            let gap: u64 = match rng.below(10 + burst_bias) {
                0 => 1,
                1 => 2,
                2 => window as u64,
                3 => (window as u64).saturating_sub(1),
                4 => window as u64 + 1,
                5 => interesting_gap + rng.below(3) as u64,
                6 => interesting_gap.saturating_sub(1),
                7 => *rng.pick(&[100_000u64, 1_000_000_000, 31_536_000 * 3, 4_294_967_296, 4_294_967_297]),
                8 => rng.below(10) as u64,
                _ => 0,
            };
            if gap > 0 {
                server.verif_rrl_shift(gap);
            }
            let req = query(step as u16, &name, T_A, 0);
            let resp = match handle(&server, &req, LOCALHOST, false, &mut bufs) {
                Ok(r) => r,
                Err(p) => {
                    mismatch = Some((step, format!("panic at {}: {}", p.location, p.message)));
                    history.push((gap, Outcome::Dropped));
                    break;
                }
            };
            let got = match classify_outcome(&resp) {
                Ok(o) => o,
                Err(e) => {
                    mismatch = Some((step, e));
                    break;
                }
            };
            history.push((gap, got));
            let allowed = bucket.step(gap as u128);
            let ok = match (allowed, got) {
                (true, Outcome::Sent) => true,
                (true, _) => false,
                (false, Outcome::Sent) => false,
                (false, Outcome::Dropped) => slip != 1,
                (false, Outcome::Slipped) => slip != 0,
            };
            if !allowed {
                n_limited += 1;
            }
            if !ok {
                mismatch = Some((step, format!("step {}: after a gap of {} s the reference bucket says {} but the response was {:?} (slip {})", step, gap, if allowed { "send" } else { "limit" }, got, slip)));
                break;
            }
        }
        let elapsed = started.elapsed();
        rep.eval();
        if elapsed.as_millis() >= 500 {
            // a real second boundary may have been crossed: refills are legitimate, not judged
            rep.hist("discarded:history-took-too-long");
            continue;
        }
        rep.evals(history.len() as u64);
        match mismatch {
            Some((step, detail)) => {
                let sig = if detail.starts_with("panic") { "c26:panic".to_string() } else { format!("c26:bucket-mismatch:slip{}", slip.min(2)) };
                rep.violation(
                    sig,
                    format!("rate {} window {} slip {} category {}: {}", rate, window, slip, category, detail),
                    Json::obj(vec![
                        ("rate", Json::Int(rate as i128)),
                        ("window", Json::Int(window as i128)),
                        ("slip", Json::Int(slip as i128)),
                        ("category", Json::Int(category as i128)),
                        ("failing_step", Json::Int(step as i128)),
                        ("history_gap_outcome", Json::Arr(history.iter().map(|(g, o)| Json::s(format!("{}:{:?}", g, o))).collect())),
                    ]),
                );
            }
            None => {
                rep.class(&format!("rate{}:win{}:slip{}:cat{}:limited{}", rate.min(1000), window, slip, category, (n_limited as usize).min(5)));
                rep.hist(if n_limited > 0 { "history:with-limited-steps" } else { "history:never-limited" });
            }
        }
        if case % 300 == 0 {
            rep.sample(|| Json::obj(vec![("rate", Json::Int(rate as i128)), ("window", Json::Int(window as i128)), ("slip", Json::Int(slip as i128)), ("history_gap_outcome", Json::Arr(history.iter().take(40).map(|(g, o)| Json::s(format!("{}:{:?}", g, o))).collect()))]));
        }
    }
}

// =====================================================================
// C27
// =====================================================================

#[derive(Clone, Debug)]
struct Req {
    source: IpAddr,
    name: RName,
    qtype: u16,
    tcp: bool,
    opcode: u16,
    malformed: bool,
    /// carries an OPT record with EDNS version 1: answered with BADVERS (extended RCODE 16)
    badvers: bool,
}

fn prefix_bits(ip: &IpAddr) -> (bool, u128) {
    match ip {
        IpAddr::V4(a) => (false, u32::from(*a) as u128),
        IpAddr::V6(a) => {
            let o = a.octets();
            if o[..10].iter().all(|b| *b == 0) && o[10] == 0xff && o[11] == 0xff {
                (false, u32::from_be_bytes([o[12], o[13], o[14], o[15]]) as u128)
            } else {
                (true, u128::from(*a) >> 64)
            }
        }
    }
}

fn same_prefix(a: &IpAddr, b: &IpAddr, v4: u8, v6: u8) -> bool {
    let (a6, av) = prefix_bits(a);
    let (b6, bv) = prefix_bits(b);
    if a6 != b6 {
        return false;
    }
    let (bits, len) = if a6 { (64u32, v6 as u32) } else { (32u32, v4 as u32) };
    if len == 0 {
        return true;
    }
    (av >> (bits - len)) == (bv >> (bits - len))
}

fn gen_source(rng: &mut Rng, base: Option<&IpAddr>, v4: u8, v6: u8) -> IpAddr {
    match base {
        Some(IpAddr::V4(a)) if rng.chance(2, 3) => {
            // flip one bit around the prefix boundary
            let bit = match rng.below(4) {
                0 => v4.saturating_sub(1) as u32,
                1 => (v4 as u32).min(31),
                _ => rng.below(32) as u32,
            };
            let flipped = Ipv4Addr::from(u32::from(*a) ^ (1u32 << (31 - bit.min(31))));
            match rng.below(6) {
                0 => IpAddr::V6(flipped.to_ipv6_mapped()),
                1 => IpAddr::V6(a.to_ipv6_mapped()),
                // "IPv4-compatible" ::a.b.c.d is NOT IPv4-mapped: it is an IPv6 source in ::/96
                2 => IpAddr::V6(Ipv6Addr::from(u32::from(*a) as u128)),
                3 => IpAddr::V6(Ipv6Addr::from(u32::from(flipped) as u128)),
                _ => IpAddr::V4(flipped),
            }
        }
        Some(IpAddr::V6(a)) if rng.chance(2, 3) => {
            let bit = match rng.below(4) {
                0 => v6.saturating_sub(1) as u32,
                1 => (v6 as u32).min(63),
                2 => 64 + rng.below(64) as u32,
                _ => rng.below(64) as u32,
            };
            IpAddr::V6(Ipv6Addr::from(u128::from(*a) ^ (1u128 << (127 - bit.min(127)))))
        }
        Some(b) if rng.chance(1, 2) => *b,
        _ => {
            if rng.chance(1, 8) {
                // an IPv6 source in ::/96 (IPv4-compatible form, not IPv4-mapped)
                IpAddr::V6(Ipv6Addr::new(0, 0, 0, 0, 0, 0, 0x0a00 | rng.below(2) as u16, (rng.below(2) as u16) << 8 | rng.below(4) as u16))
            } else if rng.bool() {
                IpAddr::V4(Ipv4Addr::new(10, rng.below(2) as u8, rng.below(2) as u8, rng.below(4) as u8))
            } else {
                IpAddr::V6(Ipv6Addr::new(0x2001, 0xdb8, rng.below(2) as u16, rng.below(2) as u16 * 0x100, 0, 0, 0, rng.below(3) as u16))
            }
        }
    }
}

const C27_NAMES: [&str; 20] = ["a.cn.rrl.test.", "b.cn.rrl.test.", "C.cn.rrl.test.", "ma.il.rrl.test.", "m.ail.rrl.test.", "MA.IL.rrl.test.", "mail.rrl.test.", "www.rrl.test.", "WWW.RRL.test.", "mail.rrl.test.", "a.wild.rrl.test.", "B.wild.rrl.test.", "c.other.rrl.test.", "nx1.rrl.test.", "nx2.rrl.test.", "www.elsewhere.", "txt.rrl.test.", "a.big.rrl.test.", "b.big.rrl.test.", "C.Big.rrl.test."];

fn gen_req(rng: &mut Rng, base: Option<&Req>, v4: u8, v6: u8) -> Req {
    let name = if let (Some(b), true) = (base, rng.chance(1, 3)) { b.name.clone() } else { RName::simple(C27_NAMES[rng.below(C27_NAMES.len())]) };
    Req {
        source: gen_source(rng, base.map(|b| &b.source), v4, v6),
        name,
        qtype: *rng.pick(&[T_A, T_A, T_A, T_TXT, T_AAAA]),
        tcp: rng.chance(1, 10),
        opcode: if rng.chance(1, 10) { *rng.pick(&[4u16, 5, 2]) } else { 0 },
        malformed: rng.chance(1, 12),
        badvers: rng.chance(1, 8),
    }
}

/// The stream a response belongs to, from the statement: None = not
/// subject to rate limiting.
fn stream_of(reference: &RefCatalog, r: &Req, v4: u8, v6: u8) -> Option<(bool, u128, u8, Option<RName>)> {
    if r.tcp || r.opcode != 0 {
        return None;
    }
    let (is6, bits) = prefix_bits(&r.source);
    let (width, len) = if is6 { (64u32, v6 as u32) } else { (32u32, v4 as u32) };
    let masked = if len == 0 { 0 } else { bits >> (width - len) };
    if r.malformed {
        return Some((is6, masked, 2, None)); // FORMERR: "other" category
    }
    if r.badvers {
        return Some((is6, masked, 2, None)); // BADVERS: an RCODE other than NOERROR/NXDOMAIN
    }
    let exp = respond(reference, &r.name, r.qtype, C_IN);
    match exp.rcode {
        RC_NOERROR => {
            let key = exp.source_of_synthesis.clone().unwrap_or_else(|| r.name.clone()).lower();
            Some((is6, masked, 0, Some(key)))
        }
        RC_NXDOMAIN => Some((is6, masked, 1, None)),
        _ => Some((is6, masked, 2, None)),
    }
}

fn send(server: &Server<QCatalog>, bufs: &mut Buffers, r: &Req, id: u16) -> Result<Option<Vec<u8>>, String> {
    let mut req = query(id, &r.name, r.qtype, r.opcode);
    if r.badvers && !r.malformed {
        // OPT with EDNS version 1; the low four bits of BADVERS are those of NOERROR
        req.extend_from_slice(&[0, 0, 41, 0x04, 0xd0, 0, 1, 0, 0, 0, 0]);
        let ar = u16::from_be_bytes([req[10], req[11]]) + 1;
        req[10..12].copy_from_slice(&ar.to_be_bytes());
    }
    if r.malformed {
        req.extend_from_slice(&[1, 2, 3]); // trailing octets: FORMERR
    }
    handle(server, &req, r.source, r.tcp, bufs).map_err(|p| format!("panic at {}: {}", p.location, p.message))
}

pub fn run_c27(ctx: &Ctx, rep: &mut Report) {
    let n = ctx.cases(160_000, 2_000_000);
    let (reference, cat) = rrl_zone();
    let cat = Arc::new(cat);
    let baseline = make_server(cat.clone(), &ServerCfg { payload: 1232, rrl: None, keys: vec![] });
    for case in ctx.case_range(n) {
        rep.current_case = case;
        let mut rng = ctx.rng("c27", case);
        let v4 = *rng.pick(&[0u8, 1, 8, 24, 24, 31, 32, 16]);
        let v6 = *rng.pick(&[0u8, 1, 48, 56, 56, 63, 64]);
        // a quarter of the servers keep the default prefix lengths (the setters are never
        // called): /24 for IPv4 and /56 for IPv6
        let defaults = rng.chance(1, 4);
        let (v4, v6) = if defaults { (24, 56) } else { (v4, v6) };
        let a = gen_req(&mut rng, None, v4, v6);
        let b = gen_req(&mut rng, Some(&a), v4, v6);
        let big = RName::simple("big.rrl.test.");
        // answers under the "big" wildcard are truncated for size anyway, which looks
        // exactly like a slipped response: use slip 0 (drop) for those pairs
        let slip = if a.name.is_at_or_below(&big) || b.name.is_at_or_below(&big) { 0 } else { rng.below(2) };
        let size = *rng.pick(&[1usize, 7, 1024, 65537]);
        let cfg = ServerCfg { payload: 1232, rrl: Some(RrlCfg { noerror: 1, nxdomain: 1, error: 1, window: 1, slip, v4_prefix: if defaults { 255 } else { v4 }, v6_prefix: if defaults { 255 } else { v6 }, size }), keys: vec![] };
        let server = make_server(cat.clone(), &cfg);
        let mut bufs = Buffers::new(1232);
        // what the same requests get without rate limiting (a response that
        // is truncated for size reasons must not be mistaken for a slipped one)
        let base_a = send(&baseline, &mut bufs, &a, 1);
        let base_b = send(&baseline, &mut bufs, &b, 2);
        let started = Instant::now();
        let ra = send(&server, &mut bufs, &a, 1);
        let rb = send(&server, &mut bufs, &b, 2);
        let elapsed = started.elapsed();
        rep.eval();
        if elapsed.as_millis() >= 500 {
            rep.hist("discarded:pair-took-too-long");
            continue;
        }
        let w = || {
            Json::obj(vec![
                ("v4_prefix", Json::Int(v4 as i128)),
                ("v6_prefix", Json::Int(v6 as i128)),
                ("slip", Json::Int(slip as i128)),
                ("table_size", Json::Int(size as i128)),
                ("first", Json::s(format!("{:?}", a))),
                ("second", Json::s(format!("{:?}", b))),
            ])
        };
        let (ra, rb) = match (ra, rb) {
            (Ok(x), Ok(y)) => (x, y),
            (Err(e), _) | (_, Err(e)) => {
                rep.violation("c27:panic", e, w());
                continue;
            }
        };
        let versus_baseline = |got: &Option<Vec<u8>>, base: &Result<Option<Vec<u8>>, String>| -> Result<Outcome, String> {
            match (got, base) {
                (None, _) => Ok(Outcome::Dropped),
                (Some(g), Ok(Some(bl))) if g == bl => Ok(Outcome::Sent),
                (Some(_), _) => match classify_outcome(got)? {
                    Outcome::Slipped => Ok(Outcome::Slipped),
                    _ => Err("response differs from the unlimited response but is not a slipped (TC, empty) one".to_string()),
                },
            }
        };
        let oa = versus_baseline(&ra, &base_a);
        let ob = versus_baseline(&rb, &base_b);
        let (oa, ob) = match (oa, ob) {
            (Ok(x), Ok(y)) => (x, y),
            (Err(e), _) | (_, Err(e)) => {
                rep.violation("c27:malformed-response", e, w());
                continue;
            }
        };
        if oa != Outcome::Sent {
            rep.violation("c27:first-limited", format!("the first response of a fresh server was {:?}", oa), w());
            continue;
        }
        let sa = stream_of(&reference, &a, v4, v6);
        let sb = stream_of(&reference, &b, v4, v6);
        let same = sa.is_some() && sa == sb;
        let limited = ob != Outcome::Sent;
        if same != limited {
            let kind = if same { "same-stream-not-limited" } else { "different-streams-limited" };
            let why = match (&sa, &sb) {
                (None, _) | (_, None) => "exempt",
                (Some(x), Some(y)) if x.0 != y.0 => "family",
                (Some(x), Some(y)) if x.1 != y.1 => "prefix",
                (Some(x), Some(y)) if x.2 != y.2 => "category",
                (Some(x), Some(y)) if x.3 != y.3 => "name",
                _ => "same",
            };
            rep.violation(format!("c27:{}:{}", kind, why), format!("second response {:?}; reference says same stream = {} ({}); first {:?} second {:?} (prefixes /{} /{})", ob, same, why, a, b, v4, v6), w());
            continue;
        }
        if limited && ((slip == 0 && ob != Outcome::Dropped) || (slip == 1 && ob != Outcome::Slipped)) {
            rep.violation("c27:slip-mode", format!("slip {} but the limited response was {:?}", slip, ob), w());
            continue;
        }
        let why = match (&sa, &sb) {
            (None, _) | (_, None) => "exempt",
            (Some(x), Some(y)) if x.0 != y.0 => "family",
            (Some(x), Some(y)) if x.1 != y.1 => "prefix",
            (Some(x), Some(y)) if x.2 != y.2 => "category",
            (Some(x), Some(y)) if x.3 != y.3 => "name",
            _ => "same",
        };
        rep.class(&format!("{}:{}:cat{}:v4-{}:v6-{}:syn{}", why, limited, sa.as_ref().map(|s| s.2).unwrap_or(9), v4, v6, sa.as_ref().and_then(|s| s.3.as_ref()).map(|n| n.is_wildcard()).unwrap_or(false)));
        rep.hist(&format!("pair:{}", why));
        if case % 4000 == 0 {
            rep.sample(|| w());
        }
    }
}

// =====================================================================
// C28
// =====================================================================

pub fn run_c28(ctx: &Ctx, rep: &mut Report) {
    let n = if ctx.is_miri() { ctx.cases(1, 32) } else { ctx.cases(3_000, 30_000) };
    let (_reference, cat) = rrl_zone();
    let cat = Arc::new(cat);
    let name = RName::simple("www.rrl.test.");
    for case in ctx.case_range(n) {
        rep.current_case = case;
        let mut rng = ctx.rng("c28", case);
        let (threads, capacity, total) = if ctx.is_miri() {
            (rng.range(2, 3), *rng.pick(&[1u32, 3]), rng.range(4, 6))
        } else {
            let t = *rng.pick(&[2usize, 4, 8, 16]);
            let cap = *rng.pick(&[1u32, 5, 50, 1000]);
            let total = match rng.below(4) {
                0 => (cap as usize).saturating_sub(rng.below(3)).max(t),
                1 => cap as usize + rng.below(8),
                // mostly just past the capacity: the interesting moment is the crossing of the limit
                2 => (cap as usize * rng.range(2, 20)).min(30_000),
                _ => cap as usize + t * rng.range(1, 4),
            };
            (t, cap, total.max(t))
        };
        let (rate, window) = if capacity % 5 == 0 && rng.bool() { (capacity / 5, 5u32) } else { (capacity, 1u32) };
        let slip = rng.below(3);
        // (allocating 65 537 buckets takes Miri minutes; the table size is irrelevant for one stream)
        let table = if ctx.is_miri() { 7 } else { 65537 };
        let cfg = ServerCfg { payload: 1232, rrl: Some(RrlCfg { noerror: rate, nxdomain: 1, error: 1, window, slip, v4_prefix: 24, v6_prefix: 56, size: table }), keys: vec![] };
        let server = Arc::new(make_server(cat.clone(), &cfg));
        // refill race: with a window of several seconds, first fill the bucket from one thread,
        // move the virtual clock by k < window seconds, and only then release the threads. Exactly
        // one refill of rate x k is due, however many threads notice it at the same moment.
        let refill_k: Option<u32> = if !ctx.is_miri() && window >= 2 && rng.chance(1, 2) { Some(rng.range(1, window as usize - 1) as u32) } else { None };
        // the real clock runs from the creation of the bucket (the first pre-fill request), so
        // the time limit below has to cover the pre-fill as well as the burst
        let started = Instant::now();
        if let Some(k) = refill_k {
            let mut bufs = Buffers::new(1232);
            let source = IpAddr::V4(Ipv4Addr::new(10, 9, 9, 250));
            let mut filled = 0u32;
            for i in 0..capacity + 2 {
                if let Ok(Some(r)) = handle(&server, &query(i as u16, &name, T_A, 0), source, false, &mut bufs) {
                    if classify_outcome(&Some(r)).map_or(false, |o| o == Outcome::Sent) {
                        filled += 1;
                    }
                }
            }
            if filled != capacity {
                rep.violation("c28:prefill", format!("filling a fresh bucket of capacity {} sequentially gave {} responses", capacity, filled), Json::Null);
                continue;
            }
            server.verif_rrl_shift(k as u64);
        }
        let per_thread = total / threads;
        let total = per_thread * threads;
        let yield_mode = rng.below(3);
        let barrier = Arc::new(Barrier::new(threads));
        let gate = Arc::new(AtomicUsize::new(0));
        let sent = Arc::new(AtomicU64::new(0));
        let slipped = Arc::new(AtomicU64::new(0));
        let dropped = Arc::new(AtomicU64::new(0));
        let bad = Arc::new(AtomicU64::new(0));
        let active = Arc::new(AtomicUsize::new(0));
        let max_active = Arc::new(AtomicUsize::new(0));
        let mut handles = Vec::new();
        for t in 0..threads {
            let (server, barrier, sent, slipped, dropped, bad, active, max_active) = (server.clone(), barrier.clone(), sent.clone(), slipped.clone(), dropped.clone(), bad.clone(), active.clone(), max_active.clone());
            let gate = gate.clone();
            let name = name.clone();
            handles.push(std::thread::spawn(move || {
                let mut bufs = Buffers::new(1232);
                let source = IpAddr::V4(Ipv4Addr::new(10, 9, 9, t as u8));
                // a spinning start line: the threads leave it within nanoseconds of one another
                // (a blocking barrier wakes them one by one, microseconds apart)
                barrier.wait();
                gate.fetch_add(1, Ordering::SeqCst);
                let mut spins = 0u32;
                while gate.load(Ordering::SeqCst) < threads {
                    spins += 1;
                    if spins % 4096 == 0 {
                        std::thread::yield_now();
                    } else {
                        std::hint::spin_loop();
                    }
                }
                for i in 0..per_thread {
                    let req = query((t * 1000 + i) as u16, &name, T_A, 0);
                    let now_active = active.fetch_add(1, Ordering::Relaxed) + 1;
                    max_active.fetch_max(now_active, Ordering::Relaxed);
                    let r = handle(&server, &req, source, false, &mut bufs);
                    active.fetch_sub(1, Ordering::Relaxed);
                    match r.map_err(|_| ()).and_then(|resp| classify_outcome(&resp).map_err(|_| ())) {
                        Ok(Outcome::Sent) => sent.fetch_add(1, Ordering::Relaxed),
                        Ok(Outcome::Slipped) => slipped.fetch_add(1, Ordering::Relaxed),
                        Ok(Outcome::Dropped) => dropped.fetch_add(1, Ordering::Relaxed),
                        Err(()) => bad.fetch_add(1, Ordering::Relaxed),
                    };
                    match yield_mode {
                        1 => std::thread::yield_now(),
                        2 if i % 7 == 0 => std::thread::yield_now(),
                        _ => {}
                    }
                }
            }));
        }
        let mut join_failed = false;
        for h in handles {
            if h.join().is_err() {
                join_failed = true;
            }
        }
        let elapsed = started.elapsed();
        rep.eval();
        let (s, sl, d, b) = (sent.load(Ordering::Relaxed), slipped.load(Ordering::Relaxed), dropped.load(Ordering::Relaxed), bad.load(Ordering::Relaxed));
        let w = Json::obj(vec![
            ("threads", Json::Int(threads as i128)),
            ("requests", Json::Int(total as i128)),
            ("rate", Json::Int(rate as i128)),
            ("window", Json::Int(window as i128)),
            ("slip", Json::Int(slip as i128)),
            ("sent", Json::Int(s as i128)),
            ("slipped", Json::Int(sl as i128)),
            ("dropped", Json::Int(d as i128)),
            ("max_overlap_observed", Json::Int(max_active.load(Ordering::Relaxed) as i128)),
        ]);
        if join_failed || b > 0 {
            rep.violation("c28:panic-or-malformed", format!("{} requests panicked or produced malformed responses", b), w);
            continue;
        }
        if !ctx.is_miri() && elapsed.as_millis() >= 500 {
            rep.hist("discarded:burst-took-too-long");
            continue;
        }
        let want_sent = match refill_k {
            Some(k) => std::cmp::min(total as u64, rate as u64 * k as u64),
            None => std::cmp::min(total as u64, capacity as u64),
        };
        if s + sl + d != total as u64 {
            rep.violation("c28:conservation", format!("sent {} + slipped {} + dropped {} != requests {}", s, sl, d, total), w);
            continue;
        }
        if ctx.is_miri() {
            // Miri runs on the real clock and is slow: refills during the
            // burst are legitimate. Only bounds are judged there (the point
            // of the Miri build is data-race and UB detection).
            let refills = rate as u64 * (elapsed.as_secs() + 1);
            if s < want_sent || s > std::cmp::min(total as u64, capacity as u64 + refills) {
                rep.violation("c28:count:out-of-bounds", format!("{} responses sent; bounds [{}, {}]", s, want_sent, capacity as u64 + refills), w);
            } else {
                rep.class(&format!("miri:t{}:cap{}:n{}", threads, capacity, total));
            }
            continue;
        }
        if s != want_sent {
            rep.violation(format!("c28:count:{}", if s > want_sent { "too-many-sent" } else { "too-few-sent" }), format!("{} responses sent, expected {} ({} requests from {} threads, capacity {}, {})", s, want_sent, total, threads, capacity, match refill_k { Some(k) => format!("bucket pre-filled, then {} s of refill due", k), None => "fresh bucket".to_string() }), w);
            continue;
        }
        if (slip == 0 && sl != 0) || (slip == 1 && d != 0) {
            rep.violation("c28:slip-mode", format!("slip {}: slipped {} dropped {}", slip, sl, d), w);
            continue;
        }
        let overlap = max_active.load(Ordering::Relaxed);
        rep.class(&format!("t{}:cap{}:n{}:overlap{}:refill{}", threads, capacity, (total / capacity.max(1) as usize).min(20), overlap.min(16), refill_k.unwrap_or(0)));
        rep.hist(if overlap >= 2 { "bursts:threads-overlapped" } else { "bursts:no-overlap-observed" });
        if case % 100 == 0 {
            rep.sample(|| w.clone());
        }
    }
}
