//! C15 — the message reader is total, atomic and faithful.
//!
//! A reference cursor is advanced by the independent decoder (wire.rs /
//! rdataref.rs); every Reader operation must agree with it on
//! accept/reject, on every returned field and on the new position.

use quandary::message::Reader;

use crate::msgbuild::*;
use crate::names::RName;
use crate::panicmon;
use crate::props::c16::gen_name;
use crate::rdataref as rr;
use crate::report::{hex, Json, Report};
use crate::rng::Rng;
use crate::wire::*;
use crate::Ctx;

fn name_enc(rng: &mut Rng, n: RName) -> NameEnc {
    if rng.chance(2, 3) {
        NameEnc::Compressed(n)
    } else {
        NameEnc::Plain(n)
    }
}

fn pick_name(rng: &mut Rng, pool: &[RName]) -> RName {
    let mut n = rng.pick(pool).clone();
    if rng.chance(1, 3) {
        let labels: [&[u8]; 4] = [b"a", b"B", b"*", b"www"];
        let c = n.child(*rng.pick(&labels));
        if c.is_valid() {
            n = c;
        }
    }
    n
}

pub fn gen_record(rng: &mut Rng, pool: &[RName]) -> RecSpec {
    let (class, rtype) = *rng.pick(rr::GEN_TYPES);
    let owner_name = pick_name(rng, pool);
    let owner = name_enc(rng, owner_name);
    let ttl = match rng.below(5) {
        0 => 0,
        1 => 0x7fff_ffff,
        2 => 0x8000_0000,
        3 => 0xffff_ffff,
        _ => rng.u32() >> rng.below(20),
    };
    let rdata = if let Some((prefix, n, suffix)) = rr::name_layout(class, rtype) {
        let mut parts = vec![RdPart::Bytes(rng.bytes(prefix))];
        for _ in 0..n {
            let nm = pick_name(rng, pool);
            parts.push(RdPart::Name(name_enc(rng, nm)));
        }
        parts.push(RdPart::Bytes(rng.bytes(suffix)));
        parts
    } else {
        let mut f = |r: &mut Rng| pick_name(r, pool);
        vec![RdPart::Bytes(rr::gen_valid(rng, class, rtype, &mut f))]
    };
    RecSpec {
        owner,
        rtype,
        class,
        ttl,
        rdata,
        rdlength_override: None,
    }
}

pub fn gen_message(rng: &mut Rng) -> (Vec<u8>, Layout) {
    let mut pool = vec![RName::simple("example.test."), RName::simple("a.example.test."), RName::simple("Example.TEST."), RName::root()];
    let extra = gen_name(rng, &pool);
    pool.push(extra);
    let mut spec = MsgSpec {
        id: rng.u16(),
        flags: rng.u16(),
        ..Default::default()
    };
    let nq = *rng.pick(&[0usize, 1, 1, 1, 2]);
    for _ in 0..nq {
        let n = pick_name(rng, &pool);
        spec.questions.push((Some(name_enc(rng, n)), rng.u16() >> rng.below(12), *rng.pick(&[1u16, 3, 255, 4])));
    }
    for _ in 0..rng.below(3) {
        let r = gen_record(rng, &pool);
        spec.answers.push(r);
    }
    for _ in 0..rng.below(3) {
        let r = gen_record(rng, &pool);
        spec.authorities.push(r);
    }
    for _ in 0..rng.below(3) {
        let r = gen_record(rng, &pool);
        spec.additionals.push(r);
    }
    let (mut msg, layout) = encode(&spec);
    let n_mut = *rng.pick(&[0usize, 0, 1, 1, 2]);
    for _ in 0..n_mut {
        mutate(rng, &mut msg, &layout);
    }
    (msg, layout)
}

fn clamp_ttl(raw: u32) -> u32 {
    if raw > 0x7fff_ffff {
        0
    } else {
        raw
    }
}

struct RefRr {
    owner: RName,
    rtype: u16,
    class: u16,
    ttl_raw: u32,
    rdlength: usize,
    rdata_start: usize,
    end: usize,
}

/// Delimits a record the cheap way (first chunk of the owner + RDLENGTH).
fn ref_delimit(msg: &[u8], cur: usize) -> Option<(usize, usize)> {
    let owner_len = skip_name(&msg[cur..]).ok()?;
    let fixed = cur + owner_len;
    if fixed + 10 > msg.len() {
        return None;
    }
    let rdlength = u16::from_be_bytes([msg[fixed + 8], msg[fixed + 9]]) as usize;
    let end = fixed + 10 + rdlength;
    if end > msg.len() {
        return None;
    }
    Some((fixed, end))
}

fn ref_fixed(msg: &[u8], fixed: usize) -> (u16, u16, u32, usize) {
    (
        u16::from_be_bytes([msg[fixed], msg[fixed + 1]]),
        u16::from_be_bytes([msg[fixed + 2], msg[fixed + 3]]),
        u32::from_be_bytes([msg[fixed + 4], msg[fixed + 5], msg[fixed + 6], msg[fixed + 7]]),
        u16::from_be_bytes([msg[fixed + 8], msg[fixed + 9]]) as usize,
    )
}

/// Fully reads a record.
fn ref_read_rr(msg: &[u8], cur: usize) -> Option<(RefRr, Vec<u8>)> {
    let owner = decode_name(msg, cur).ok()?;
    let fixed = cur + owner.field_len;
    if fixed + 10 > msg.len() {
        return None;
    }
    let (rtype, class, ttl_raw, rdlength) = ref_fixed(msg, fixed);
    let rdata = rr::ref_read(msg, class, rtype, fixed + 10, rdlength)?;
    Some((
        RefRr {
            owner: owner.name,
            rtype,
            class,
            ttl_raw,
            rdlength,
            rdata_start: fixed + 10,
            end: fixed + 10 + rdlength,
        },
        rdata,
    ))
}

pub fn run_ops(rep: &mut Report, rng: &mut Rng, msg: &[u8]) -> Result<String, (String, String)> {
    let mut reader = match Reader::try_from(msg) {
        Ok(r) => {
            if msg.len() < 12 {
                return Err(("constructor-accepts-short".into(), format!("Reader accepts a {}-octet message", msg.len())));
            }
            r
        }
        Err(_) => {
            if msg.len() >= 12 {
                return Err(("constructor-rejects".into(), format!("Reader rejects a {}-octet message", msg.len())));
            }
            return Ok("short".into());
        }
    };
    let h = parse_header(msg).unwrap();
    if reader.id() != h.id
        || reader.qr() != h.qr()
        || u8::from(reader.opcode()) != h.opcode()
        || reader.aa() != h.aa()
        || reader.tc() != h.tc()
        || reader.rd() != h.rd()
        || reader.ra() != h.ra()
        || u8::from(reader.rcode()) as u16 != h.rcode()
        || reader.qdcount() != h.qdcount
        || reader.ancount() != h.ancount
        || reader.nscount() != h.nscount
        || reader.arcount() != h.arcount
    {
        return Err(("header".into(), "header accessors disagree with the reference".into()));
    }
    let mut cur = 12usize;
    let mut mark: Option<usize> = None;
    let mut trace = String::new();
    let n_ops = rng.range(1, 14);
    for _ in 0..n_ops {
        rep.eval();
        if reader.message_to_cursor().len() != cur {
            return Err(("cursor".into(), format!("cursor at {} expected {} after {}", reader.message_to_cursor().len(), cur, trace)));
        }
        if reader.at_eom() != (cur >= msg.len()) {
            return Err(("at_eom".into(), format!("at_eom() = {} at cursor {} of {}", reader.at_eom(), cur, msg.len())));
        }
        // choose an operation; prefer ones that make progress
        let op = match rng.below(12) {
            0 | 1 => "read_question",
            2 => "skip_question",
            3 | 4 | 5 => "read_rr",
            6 => "skip_rr",
            7 => "peek_skip",
            8 => "peek_parse",
            9 => "peek_owner_drop",
            10 => "mark",
            _ => "rewind",
        };
        trace.push_str(op);
        trace.push(' ');
        match op {
            "read_question" => {
                let want = decode_name(msg, cur).ok().and_then(|dn| {
                    let after = cur + dn.field_len;
                    if after + 4 <= msg.len() {
                        Some((dn.name, u16::from_be_bytes([msg[after], msg[after + 1]]), u16::from_be_bytes([msg[after + 2], msg[after + 3]]), after + 4))
                    } else {
                        None
                    }
                });
                let got = reader.read_question();
                match (want, got) {
                    (Some((n, t, c, end)), Ok(q)) => {
                        if q.qname.wire_repr() != n.wire().as_slice() || u16::from(q.qtype) != t || u16::from(q.qclass) != c {
                            return Err(("read_question-value".into(), format!("question at {} decoded differently", cur)));
                        }
                        cur = end;
                    }
                    (None, Err(_)) => {}
                    (Some(_), Err(e)) => return Err(("read_question-rejects".into(), format!("read_question at {} fails: {:?}", cur, e))),
                    (None, Ok(_)) => return Err(("read_question-accepts".into(), format!("read_question at {} succeeds on an undecodable question", cur))),
                }
            }
            "skip_question" => {
                let want = skip_name(&msg[cur..]).ok().and_then(|l| if cur + l + 4 <= msg.len() { Some(cur + l + 4) } else { None });
                let got = reader.skip_question();
                match (want, got) {
                    (Some(end), Ok(())) => cur = end,
                    (None, Err(_)) => {}
                    (Some(_), Err(e)) => return Err(("skip_question-rejects".into(), format!("skip_question at {} fails: {:?}", cur, e))),
                    (None, Ok(())) => return Err(("skip_question-accepts".into(), format!("skip_question at {} succeeds", cur))),
                }
            }
            "read_rr" | "peek_parse" => {
                let want = ref_read_rr(msg, cur);
                let got = if op == "read_rr" {
                    reader.read_rr()
                } else {
                    let delim = ref_delimit(msg, cur);
                    match reader.peek_rr() {
                        Ok(p) => {
                            if delim.is_none() {
                                return Err(("peek_rr-accepts".into(), format!("peek_rr at {} succeeds on an undelimitable record", cur)));
                            }
                            p.parse()
                        }
                        Err(e) => {
                            if delim.is_some() {
                                return Err(("peek_rr-rejects".into(), format!("peek_rr at {} fails: {:?}", cur, e)));
                            }
                            Err(e)
                        }
                    }
                };
                match (want, got) {
                    (Some((r, rdata)), Ok(g)) => {
                        if g.owner.wire_repr() != r.owner.wire().as_slice()
                            || u16::from(g.rr_type) != r.rtype
                            || u16::from(g.class) != r.class
                            || u32::from(g.ttl) != clamp_ttl(r.ttl_raw)
                            || g.rdata.octets() != rdata.as_slice()
                        {
                            return Err((
                                format!("{}-value", op),
                                format!("record at {} (type {}): got owner {} ttl {} rdata {}, reference owner {} ttl {} rdata {}", cur, r.rtype, hex(g.owner.wire_repr()), u32::from(g.ttl), hex(g.rdata.octets()), hex(&r.owner.wire()), clamp_ttl(r.ttl_raw), hex(&rdata)),
                            ));
                        }
                        cur = r.end;
                    }
                    (None, Err(_)) => {}
                    (Some((r, _)), Err(e)) => return Err((format!("{}-rejects", op), format!("{} at {} (type {}) fails: {:?}", op, cur, r.rtype, e))),
                    (None, Ok(g)) => return Err((format!("{}-accepts", op), format!("{} at {} returns a type {} record the reference cannot decode", op, cur, u16::from(g.rr_type)))),
                }
            }
            "skip_rr" => {
                let want = ref_delimit(msg, cur);
                let got = reader.skip_rr();
                match (want, got) {
                    (Some((_, end)), Ok(())) => cur = end,
                    (None, Err(_)) => {}
                    (Some(_), Err(e)) => return Err(("skip_rr-rejects".into(), format!("skip_rr at {} fails: {:?}", cur, e))),
                    (None, Ok(())) => return Err(("skip_rr-accepts".into(), format!("skip_rr at {} succeeds on an undelimitable record", cur))),
                }
            }
            "peek_skip" | "peek_owner_drop" => {
                let want = ref_delimit(msg, cur);
                match (want, reader.peek_rr()) {
                    (Some((fixed, end)), Ok(mut p)) => {
                        let (t, c, ttl, rdl) = ref_fixed(msg, fixed);
                        if u16::from(p.rr_type()) != t || u16::from(p.class()) != c || u32::from(p.ttl()) != clamp_ttl(ttl) || p.rdlength() as usize != rdl {
                            return Err(("peek-fields".into(), format!("peeked fields at {} differ", cur)));
                        }
                        if p.message_to_rr().len() != cur {
                            return Err(("peek-message_to_rr".into(), "message_to_rr has the wrong length".into()));
                        }
                        let want_owner = decode_name(msg, cur).ok();
                        for _ in 0..2 {
                            match (&want_owner, p.owner()) {
                                (Some(w), Ok(o)) => {
                                    if o.wire_repr() != w.name.wire().as_slice() {
                                        return Err(("peek-owner-value".into(), format!("peeked owner at {} differs", cur)));
                                    }
                                }
                                (None, Err(_)) => {}
                                (Some(_), Err(e)) => return Err(("peek-owner-rejects".into(), format!("owner() at {} fails: {:?}", cur, e))),
                                (None, Ok(_)) => return Err(("peek-owner-accepts".into(), format!("owner() at {} succeeds", cur))),
                            }
                        }
                        if op == "peek_skip" {
                            p.skip();
                            cur = end;
                        }
                    }
                    (None, Err(_)) => {}
                    (Some(_), Err(e)) => return Err(("peek_rr-rejects".into(), format!("peek_rr at {} fails: {:?}", cur, e))),
                    (None, Ok(_)) => return Err(("peek_rr-accepts".into(), format!("peek_rr at {} succeeds on an undelimitable record", cur))),
                }
            }
            "mark" => {
                reader.mark();
                mark = Some(cur);
            }
            _ => {
                if let Some(m) = mark.take() {
                    reader.rewind();
                    cur = m;
                }
            }
        }
    }
    if reader.message_to_cursor().len() != cur {
        return Err(("cursor".into(), format!("cursor at {} expected {} after {}", reader.message_to_cursor().len(), cur, trace)));
    }
    Ok(format!("{}:{}", trace.split(' ').take(3).collect::<Vec<_>>().join(","), if cur >= msg.len() { "eom" } else { "mid" }))
}

pub fn run(ctx: &Ctx, rep: &mut Report) {
    let n = if ctx.is_miri() { ctx.cases(40, 1600) } else { ctx.cases(150_000, 1_500_000) };
    for case in ctx.case_range(n) {
        rep.current_case = case;
        let mut rng = ctx.rng("c15", case);
        let (msg, _) = if rng.chance(1, 12) {
            let n = rng.below(40);
            (rng.bytes(n), Layout::default())
        } else {
            gen_message(&mut rng)
        };
        let mut ops_rng = rng.clone();
        let result = panicmon::catch(|| run_ops(rep, &mut ops_rng, &msg));
        let wit = Json::obj(vec![("message", Json::hex(&msg))]);
        match result {
            Err(p) => rep.violation(format!("c15:{}", p.signature()), format!("reader operation panicked at {}: {} (message {})", p.location, p.message, hex(&msg)), wit),
            Ok(Err((sig, detail))) => rep.violation(format!("c15:{}", sig), format!("{} (message {})", detail, hex(&msg)), wit),
            Ok(Ok(class)) => rep.class(&class),
        }
        if case % 2000 == 11 {
            rep.sample(|| Json::obj(vec![("message", Json::hex(&msg))]));
        }
    }
}
