//! C01–C09: monitors over `Server::handle_message`.
//!
//! One scenario = a generated catalog + server configuration; many
//! requests are sent to it. Each property selects its workload mix and
//! applies its own oracle at the API boundary (request octets in,
//! response octets or "no response" out).

use std::collections::BTreeMap;
use std::net::{IpAddr, Ipv4Addr, Ipv6Addr};
use std::sync::Arc;

use quandary::db::catalog::Entry;
use quandary::db::{HashMapTreeZone, SingleZoneCatalog};
use quandary::server::Server;

use crate::gen::*;
use crate::hmac::Alg;
use crate::msgbuild::*;
use crate::names::RName;
use crate::rdataref as rr;
use crate::reqclass::{classify, Classified, Stop};
use crate::reqgen::*;
use crate::report::{hex, Json, Report};
use crate::rng::Rng;
use crate::srv::*;
use crate::wire::*;
use crate::zonemodel::*;
use crate::Ctx;

pub struct Scenario {
    pub built: BuiltCatalog,
    pub server: Server<QCatalog>,
    pub cfg: ServerCfg,
    pub bufs: Buffers,
    pub names: Vec<RName>,
    pub classes: Vec<u16>,
}

fn pick_payload(rng: &mut Rng) -> u16 {
    match rng.below(8) {
        0 => 512,
        1 => 513,
        2 => 1232,
        3 => 4096,
        4 => 65535,
        5 => rng.range(512, 2000) as u16,
        _ => 1232,
    }
}

pub fn gen_keys(rng: &mut Rng, related: &[RName]) -> Vec<Key> {
    let n = rng.range(1, 3);
    let mut keys = Vec::new();
    for i in 0..n {
        let name = match rng.below(5) {
            1 | 2 if !related.is_empty() => {
                // a key name that shares labels with names in the zones
                let base = rng.pick(related).clone();
                let c = base.child(if rng.bool() { b"key" } else { b"k" });
                if c.is_valid() {
                    c
                } else {
                    base
                }
            }
            0 => {
                // very long key name
                let mut n = RName::root();
                for _ in 0..3 {
                    let l: Vec<u8> = (0..63).map(|_| b'k').collect();
                    n = n.child(&l);
                }
                n
            }
            _ => RName::simple(&format!("key{}.example.", i)),
        };
        let alg = if rng.bool() { Alg::Sha1 } else { Alg::Sha256 };
        let len = *rng.pick(&[1usize, 16, 20, 32, 64, 65, 100]);
        if keys.iter().any(|k: &Key| k.name.eq_ci(&name)) {
            continue; // key names are unique (the server keeps one key per name)
        }
        keys.push(Key { name, alg, secret: rng.bytes(len) });
    }
    keys
}

pub fn gen_scenario(rng: &mut Rng, prop: &str) -> Scenario {
    let hostile = matches!(prop, "c01" | "c02");
    let bulky = prop == "c04" || (hostile && rng.chance(1, 4));
    let classes: Vec<u16> = match prop {
        "c05" | "c04" => vec![C_IN, C_IN, C_IN, C_CH],
        "c07" => vec![C_IN, C_CH, C_HS, 65280],
        _ => vec![C_IN, C_IN, C_CH, C_HS],
    };
    let opts = CatalogOpts {
        zone: ZoneOpts { max_records: if prop == "c05" { 24 } else { 14 }, hostile, bulky },
        max_zones: if prop == "c07" { 5 } else { 3 },
        allow_unloaded: matches!(prop, "c01" | "c02" | "c07" | "c03"),
        classes: classes.clone(),
    };
    let built = gen_catalog(rng, &opts);
    let mut cfg = ServerCfg { payload: pick_payload(rng), rrl: None, keys: Vec::new() };
    let names = interesting_names(rng, &built.reference);
    if prop == "c01" || prop == "c02" {
        if rng.chance(1, 3) {
            cfg.rrl = Some(RrlCfg {
                noerror: *rng.pick(&[1u32, 2, 100]),
                nxdomain: *rng.pick(&[1u32, 5]),
                error: *rng.pick(&[1u32, 5]),
                window: *rng.pick(&[1u32, 2, 15]),
                slip: rng.below(4),
                v4_prefix: rng.below(33) as u8,
                v6_prefix: rng.below(65) as u8,
                size: *rng.pick(&[1usize, 7, 1024]),
            });
        }
        if rng.chance(1, 2) {
            cfg.keys = gen_keys(rng, &names);
        }
    }
    if prop == "c03" && rng.chance(1, 2) {
        // header and question echo must also hold on the TSIG paths
        cfg.keys = gen_keys(rng, &names);
    }
    if matches!(prop, "c03" | "c07" | "c08" | "c09") && rng.chance(1, 4) {
        // rate limiting switched on with limits that are never reached: every response then also
        // passes through the rate limiter's classification, and must come out unchanged
        cfg.rrl = Some(RrlCfg { noerror: 1_000_000, nxdomain: 1_000_000, error: 1_000_000, window: 15, slip: 1, v4_prefix: 24, v6_prefix: 56, size: 64 });
    }
    if prop == "c04" && rng.chance(1, 6) {
        // with rate limiting on, only the transport-level clauses are judged (see the driver)
        cfg.rrl = Some(RrlCfg { noerror: *rng.pick(&[1u32, 2]), nxdomain: 1, error: 1, window: *rng.pick(&[1u32, 2, 15]), slip: rng.range(1, 3), v4_prefix: 24, v6_prefix: 56, size: 1024 });
    }
    if matches!(prop, "c04" | "c05" | "c07" | "c08" | "c09") && rng.chance(1, 3) {
        // validly signed requests must be answered like unsigned ones (plus the TSIG record)
        cfg.keys = gen_keys(rng, &names);
    }
    let catalog = Arc::new(built.catalog.clone());
    let server = make_server(catalog, &cfg);
    let bufs = Buffers::roomy(cfg.payload, rng);
    Scenario { built, server, cfg, bufs, names, classes }
}

pub fn random_source(rng: &mut Rng) -> IpAddr {
    match rng.below(4) {
        0 => IpAddr::V6(Ipv6Addr::new(0x2001, 0xdb8, rng.u16() & 3, 0, 0, 0, 0, rng.u16() & 3)),
        1 => IpAddr::V6(Ipv4Addr::new(10, 0, 0, rng.below(4) as u8).to_ipv6_mapped()),
        _ => IpAddr::V4(Ipv4Addr::new(10, 0, rng.below(2) as u8, rng.below(4) as u8)),
    }
}

fn now_unix() -> u64 {
    std::time::SystemTime::now().duration_since(std::time::UNIX_EPOCH).unwrap().as_secs()
}

/// Builds one request for the property's workload. Returns the octets
/// and a label describing how it was made.
/// 0/1/2 OPT records anywhere in the message, with arbitrary TTL octets
/// (extended RCODE, version, flags), owners, payload sizes and options.
fn shape_opts(rng: &mut Rng, sc: &Scenario, spec: &mut MsgSpec) {
        // 0/1/2 OPTs anywhere, arbitrary TTL octets, owners, payloads
        spec.additionals.retain(|r| r.rtype != T_OPT);
        let n_opt = *rng.pick(&[0usize, 1, 1, 1, 1, 2]);
        for _ in 0..n_opt {
            let ext = *rng.pick(&[0u8, 0, 0, 1, 0x7f, 0x80, 0xff]);
            let version = if rng.chance(1, 2) { 0 } else { rng.u8() };
            let mut o = opt_record(if rng.bool() { rng.u16() } else { *rng.pick(&PAYLOADS) }, ext, version, rng.u16() & 0x8001, Vec::new());
            if rng.chance(1, 6) {
                o.owner = NameEnc::Plain(rng.pick(&sc.names).clone());
            }
            if rng.chance(1, 6) {
                // options
                let mut f = |r: &mut Rng| r.pick(&sc.names).clone();
                let rd = rr::gen_valid(rng, C_IN, T_OPT, &mut f);
                let rd = if rng.chance(1, 3) { rr::mutate(rng, &rd) } else { rd };
                o.rdata = vec![RdPart::Bytes(rd)];
            }
            match rng.below(10) {
                0 => spec.answers.push(o),
                1 => spec.authorities.push(o),
                _ => {
                    let at = rng.below(spec.additionals.len() + 1);
                    spec.additionals.insert(at, o);
                }
            }
        }
    }

fn gen_request(rng: &mut Rng, sc: &Scenario, prop: &str) -> (Vec<u8>, &'static str) {
    let edns = match prop {
        "c09" => (3, 4),
        "c04" => (2, 3),
        _ => (1, 3),
    };
    let mut spec = gen_query(rng, &sc.names, &sc.classes, edns);
    // property-specific shaping of the well-formed part
    match prop {
        "c03" => {
            spec.flags = rng.u16() & 0x7fff; // QR clear most of the time
            if rng.chance(1, 10) {
                spec.flags |= 0x8000;
            }
            if rng.chance(1, 8) {
                if let Some(q) = spec.questions.first_mut() {
                    if let Some(NameEnc::Plain(n)) = &q.0 {
                        // compress the QNAME against header octets? not possible for a
                        // first name; use a raw pointer into the header instead
                        let _ = n;
                        q.0 = Some(NameEnc::Raw(vec![0xc0, rng.below(12) as u8]));
                    }
                }
            }
            if rng.chance(1, 10) {
                let (n, t, c) = gen_question(rng, &sc.names, &sc.classes);
                spec.questions.push((Some(NameEnc::Compressed(n)), t, c));
            }
            if rng.chance(1, 10) {
                spec.questions.clear();
            }
        }
        "c01" | "c02" => {
            // structurally valid but unusual combinations: no question, other opcodes,
            // 0/1/2 OPT records with arbitrary version / extended-RCODE octets
            if rng.chance(1, 8) {
                spec.questions.clear();
            }
            if rng.chance(1, 10) {
                let opcode = rng.range(1, 15) as u16;
                spec.flags = (spec.flags & !0x7800) | (opcode << 11);
            }
            if rng.chance(1, 4) {
                shape_opts(rng, sc, &mut spec);
            }
        }
        "c08" => {
            if rng.chance(1, 4) {
                let opcode = rng.range(1, 15) as u16;
                spec.flags = (spec.flags & !0x7800) | (opcode << 11);
            }
            if rng.chance(1, 12) {
                spec.questions.clear();
            }
            if rng.chance(1, 5) {
                // OPT problems (duplicates, owners, placement) compete with BADVERS
                shape_opts(rng, sc, &mut spec);
            }
        }
        "c07" => {
            if rng.chance(1, 3) {
                let opcode = rng.range(1, 15) as u16;
                spec.flags = (spec.flags & !0x7800) | (opcode << 11);
                if rng.chance(1, 3) {
                    spec.questions.clear();
                }
            }
        }
        "c09" => {
            shape_opts(rng, sc, &mut spec);
            if rng.chance(1, 10) {
                spec.questions.clear();
            }
            if rng.chance(1, 12) {
                let opcode = rng.range(1, 15) as u16;
                spec.flags = (spec.flags & !0x7800) | (opcode << 11);
            }
        }
        _ => {}
    }
    if rng.chance(1, 6) {
        // a zone with a huge RRset (response larger than 16 KiB over TCP) gets asked for it
        let want: &[u8] = if rng.bool() { b"huge" } else { b"fan" };
        if let Some(h) = sc.names.iter().find(|n| n.0.first().map_or(false, |l| l.eq_ignore_ascii_case(want))) {
            if let Some(q) = spec.questions.first_mut() {
                *q = (Some(NameEnc::Plain(h.clone())), if rng.chance(2, 3) { T_MX } else { 255 }, C_IN);
            }
        }
    }
    if prop == "c04" && !sc.cfg.keys.is_empty() && rng.chance(1, 4) {
        // a long QNAME below a loaded zone (NXDOMAIN or wildcard data): together with a long
        // key name, question + TSIG record approach and exceed the 512-octet limit
        let apexes: Vec<&RName> = sc.built.reference.entries.iter().filter(|e| matches!(e.state, EntryState::Loaded(_)) && e.class == C_IN).map(|e| &e.name).collect();
        if !apexes.is_empty() {
            let mut n = (*rng.pick(&apexes)).clone();
            let target = rng.range(200, 255);
            while n.wire_len() < target {
                let room = target - n.wire_len();
                let len = if room >= 64 { 63 } else { room.saturating_sub(1).max(1) };
                let l: Vec<u8> = (0..len).map(|_| *rng.pick(b"qQ")).collect();
                let c = n.child(&l);
                if !c.is_valid() {
                    break;
                }
                n = c;
            }
            if let Some(q) = spec.questions.first_mut() {
                *q = (Some(NameEnc::Plain(n)), T_A, C_IN);
            }
        }
    }
    if matches!(prop, "c08" | "c01" | "c02") && rng.chance(1, 8) {
        // a record whose owner is right at the 255-octet limit: labels (with their length
        // octets) totalling 252..256 octets, ended by a root label or by a pointer to the QNAME
        let total = rng.range(252, 256);
        let mut raw = Vec::new();
        let mut left = total;
        while left >= 2 {
            let len = (left - 1).min(63);
            raw.push(len as u8);
            raw.extend((0..len).map(|_| *rng.pick(b"oO0")));
            left -= 1 + len;
        }
        if rng.chance(2, 3) {
            raw.push(0);
        } else {
            raw.extend_from_slice(&[0xc0, 12]);
        }
        let r = RecSpec::new(NameEnc::Raw(raw), T_A, C_IN, 60, vec![192, 0, 2, 1]);
        match rng.below(3) {
            0 => spec.answers.push(r),
            1 => spec.authorities.push(r),
            _ => spec.additionals.insert(0, r),
        }
    }
    // harmless extra records
    if rng.chance(1, 6) {
        let r = junk_record(rng, &sc.names);
        match rng.below(3) {
            0 => spec.answers.push(r),
            1 => spec.authorities.push(r),
            _ => spec.additionals.insert(0, r),
        }
    }
    let (base, layout) = encode(&spec);
    let hostile_share = match prop {
        "c01" => (3, 4),
        "c02" => (1, 2),
        "c03" => (1, 4),
        "c08" => (5, 6),
        "c09" => (1, 8),
        "c07" => (0, 1),
        _ => (0, 1),
    };
    // TSIG-signed requests (C01/C02: to reach the signing paths)
    if !sc.cfg.keys.is_empty() && rng.chance(1, 3) {
        let key = rng.pick(&sc.cfg.keys).clone();
        let mut o = SignOpts::at(now_unix());
        // only C01-C03 judge requests with broken signatures; elsewhere a signed request is
        // always valid and must be answered exactly like the unsigned one
        let any_signature = matches!(prop, "c01" | "c02" | "c03");
        let variant = if any_signature { rng.below(8) } else { 6 + rng.below(2) };
        match variant {
            0 => o.time = now_unix().wrapping_sub(100_000),
            1 => o.corrupt_mac = true,
            2 => o.mac_len = Some(rng.below(40)),
            3 => o.alg_name_override = Some(RName::simple("hmac-md5.sig-alg.reg.int.")),
            4 => {
                // an algorithm name of 255 octets (the longest valid one) or of 256 (one too long)
                let mut n = RName::root();
                for len in [63usize, 63, 63, if rng.bool() { 61 } else { 62 }] {
                    n = n.child(&vec![b'z'; len]);
                }
                o.alg_name_override = Some(n);
            }
            5 => {
                o.key_name_override = Some(if rng.chance(1, 3) {
                    // a key name one octet beyond the limit
                    let mut n = RName::root();
                    for len in [63usize, 63, 63, 62] {
                        n = n.child(&vec![b'k'; len]);
                    }
                    n
                } else {
                    RName::simple("unknown-key.")
                })
            }
            // a valid signature made before a forwarder rewrote the header ID
            6 => o.original_id = Some(rng.u16()),
            _ => {}
        }
        let (signed, _, _) = sign_request(&base, &key, &o);
        // an otherwise valid TSIG record whose class alone, TTL alone, or both are wrong
        if matches!(prop, "c01" | "c02" | "c03" | "c08") && rng.chance(1, 6) {
            let which = rng.below(3);
            let class = *rng.pick(&[1u16, 3, 4, 254, 0, 0xff00]);
            let ttl = *rng.pick(&[1u32, 0x100, 0x0001_0000, 0x7fff_ffff, 3600]);
            if let Some(t) = crate::reqclass::classify(&signed).tsig {
                let fixed = t.rr_start + t.key_name.wire_len();
                if signed.len() >= fixed + 10 && signed[fixed..fixed + 2] == T_TSIG.to_be_bytes() {
                    let mut v = signed.clone();
                    if which != 1 {
                        v[fixed + 2..fixed + 4].copy_from_slice(&class.to_be_bytes());
                    }
                    if which != 0 {
                        v[fixed + 4..fixed + 8].copy_from_slice(&ttl.to_be_bytes());
                    }
                    return (v, "tsig-bad-fixed-fields");
                }
            }
        }
        if !any_signature {
            return (signed, "tsig-valid");
        }
        if rng.chance(hostile_share.0, hostile_share.1 * 2) {
            let mut v = signed.clone();
            mutate(rng, &mut v, &layout);
            return (v, "tsig-mutated");
        }
        return (signed, if variant >= 6 { "tsig-valid" } else { "tsig" });
    }
    if hostile_share.0 > 0 && rng.chance(hostile_share.0, hostile_share.1) {
        (gen_hostile(rng, &base, &layout), "hostile")
    } else {
        (base, "wellformed")
    }
}

fn wit(sc: &Scenario, req: &[u8], tcp: bool, resp: &Option<Vec<u8>>) -> Json {
    Json::obj(vec![
        ("request", Json::hex(req)),
        ("transport", Json::s(if tcp { "tcp" } else { "udp" })),
        ("server_payload", Json::Int(sc.cfg.payload as i128)),
        ("response", match resp {
            Some(r) => Json::hex(r),
            None => Json::Null,
        }),
        ("zones", Json::Arr(sc.built.reference.entries.iter().map(|e| Json::s(format!("{} class {} {}", e.name.to_text(), e.class, match &e.state { EntryState::Loaded(z) => format!("loaded({} records)", z.offered.len()), EntryState::NotYetLoaded => "not-yet-loaded".into(), EntryState::FailedToLoad => "failed".into() }))).collect())),
    ])
}

fn zone_dump(sc: &Scenario) -> Json {
    Json::Arr(
        sc.built
            .reference
            .entries
            .iter()
            .map(|e| match &e.state {
                EntryState::Loaded(z) => Json::obj(vec![
                    ("apex", Json::s(e.name.to_text())),
                    ("class", Json::Int(e.class as i128)),
                    (
                        "records",
                        Json::Arr(
                            z.offered
                                .iter()
                                .filter(|(_, r)| r.is_ok())
                                .map(|(r, _)| Json::s(format!("{} {} TYPE{} {}", r.owner.to_text(), r.ttl, r.rtype, hex(&r.rdata))))
                                .collect(),
                        ),
                    ),
                ]),
                _ => Json::obj(vec![("apex", Json::s(e.name.to_text())), ("class", Json::Int(e.class as i128)), ("state", Json::s("not loaded"))]),
            })
            .collect(),
    )
}

// ---------------------------------------------------------------------
// monitors
// ---------------------------------------------------------------------

/// C02: the response decodes completely and its pseudo-records are
/// placed correctly.
pub fn m02(resp: &[u8]) -> Result<Msg, String> {
    let m = decode(resp)?;
    check_pseudo_records(&m)?;
    Ok(m)
}

fn no_data(m: &Msg) -> bool {
    m.data_records().count() == 0
}

/// C03: header and question echo.
fn m03(req: &[u8], p: &Classified, resp: &Option<Vec<u8>>) -> Result<String, (String, String)> {
    let want_none = p.stop == Stop::NoResponse;
    match (want_none, resp) {
        (true, None) => return Ok("none".into()),
        (true, Some(_)) => return Err(("responds-when-it-must-not".into(), "a response was sent to a request that is short, has QR set, or has QDCOUNT > 1".into())),
        (false, None) => return Err(("no-response".into(), "no response to a request that must be answered".into())),
        (false, Some(_)) => {}
    }
    let resp = resp.as_ref().unwrap();
    let rh = parse_header(resp).ok_or(("short-response".to_string(), "response shorter than a header".to_string()))?;
    let qh = p.header.as_ref().unwrap();
    if rh.id != qh.id {
        return Err(("id".into(), format!("response ID {} != request ID {}", rh.id, qh.id)));
    }
    if rh.opcode() != qh.opcode() {
        return Err(("opcode".into(), format!("response opcode {} != request opcode {}", rh.opcode(), qh.opcode())));
    }
    if !rh.qr() {
        return Err(("qr".into(), "QR clear in response".into()));
    }
    let want_rd = qh.opcode() == 0 && qh.rd();
    if rh.rd() != want_rd {
        return Err(("rd".into(), format!("RD is {} (request RD {}, opcode {})", rh.rd(), qh.rd(), qh.opcode())));
    }
    if rh.ra() {
        return Err(("ra".into(), "RA set".into()));
    }
    if rh.z_bits() != 0 {
        return Err(("reserved-bits".into(), format!("reserved header bits {:03b} set", rh.z_bits())));
    }
    if let Some(q) = &p.question {
        if rh.qdcount != 1 {
            return Err(("qdcount".into(), format!("QDCOUNT {} in response to a request with one parseable question", rh.qdcount)));
        }
        if !q.compressed {
            if resp.len() < 12 + q.raw.len() || resp[12..12 + q.raw.len()] != q.raw[..] {
                return Err(("question-octets".into(), format!("question {} not repeated octet-for-octet", hex(&q.raw))));
            }
        } else {
            let m = decode(resp).map_err(|e| ("undecodable".to_string(), e))?;
            let rq = &m.questions[0];
            if rq.name.name != q.name || rq.qtype != q.qtype || rq.qclass != q.qclass {
                return Err(("question-decoded".into(), "question differs after decoding".into()));
            }
        }
    }
    Ok(format!("op{}:rd{}:q{}:f{:x}", qh.opcode(), qh.rd(), p.question.is_some() as u8, (qh.flags >> 4) & 0x7f))
}

type Canon = (Vec<u8>, u16, u16, u32, Vec<u8>);

fn canon_exp(r: &RRec) -> Canon {
    (r.owner.lower().wire(), r.rtype, r.class, r.ttl, rr::canon(r.class, r.rtype, &r.rdata))
}

fn canon_resp(r: &Record) -> Canon {
    (r.owner.name.lower().wire(), r.rtype, r.class, r.ttl, rr::canon(r.class, r.rtype, &r.rdata))
}

fn show(c: &Canon) -> String {
    format!("{} TYPE{} CLASS{} ttl {} {}", RName::from_wire_all(&c.0).map(|n| n.to_text()).unwrap_or_default(), c.1, c.2, c.3, hex(&c.4))
}

fn multiset(v: Vec<Canon>) -> BTreeMap<Canon, usize> {
    let mut m = BTreeMap::new();
    for c in v {
        *m.entry(c).or_insert(0) += 1;
    }
    m
}

/// C05: compare with the reference responder.
fn m05(exp: &Expected, m: &Msg) -> Result<(), (String, String)> {
    let k = exp.kind;
    if m.ext_rcode() != exp.rcode {
        return Err((format!("{}:rcode", k), format!("RCODE {} expected {}", m.ext_rcode(), exp.rcode)));
    }
    if m.header.aa() != exp.aa {
        return Err((format!("{}:aa", k), format!("AA {} expected {}", m.header.aa(), exp.aa)));
    }
    if m.header.tc() {
        return Err((format!("{}:tc", k), "TC set although the complete answer fits".into()));
    }
    for (sec, want) in [(Section::Answer, &exp.answer), (Section::Authority, &exp.authority)] {
        let got = multiset(m.section(sec).map(canon_resp).collect());
        let want = multiset(want.iter().map(canon_exp).collect());
        if got != want {
            let missing: Vec<String> = want.keys().filter(|c| got.get(*c) != want.get(*c)).map(show).collect();
            let extra: Vec<String> = got.keys().filter(|c| got.get(*c) != want.get(*c)).map(show).collect();
            return Err((format!("{}:{:?}", k, sec).to_lowercase(), format!("{:?} section differs; expected-but-different {:?}; present-but-different {:?}", sec, missing, extra)));
        }
    }
    let got: Vec<Canon> = m.section(Section::Additional).filter(|r| r.rtype != T_OPT && r.rtype != T_TSIG).map(canon_resp).collect();
    let required: Vec<Canon> = exp.additional_required.iter().map(canon_exp).collect();
    let allowed: Vec<Canon> = exp.additional_allowed.iter().map(canon_exp).collect();
    for r in &required {
        if !got.contains(r) {
            return Err((format!("{}:additional-missing", k), format!("additional section lacks {}", show(r))));
        }
    }
    for g in &got {
        if !allowed.contains(g) {
            return Err((format!("{}:additional-extra", k), format!("additional section has unexpected {}", show(g))));
        }
    }
    Ok(())
}

/// C07 expectation from the statement.
fn m07(p: &Classified, cat: &RefCatalog, m: &Msg, signed_ok: bool) -> Result<Option<&'static str>, (String, String)> {
    // a request with a TSIG record is judged only when the harness signed it validly
    // (then it must be answered exactly like the unsigned request)
    if p.stop != Stop::Clean || (p.tsig.is_some() && !signed_ok) {
        return Ok(None);
    }
    let h = p.header.as_ref().unwrap();
    let expect: Option<(u16, &'static str)> = if h.opcode() != 0 {
        Some((RC_NOTIMP, "notimp-opcode"))
    } else if let Some(q) = &p.question {
        if q.qclass == C_ANY || matches!(q.qtype, T_IXFR | T_AXFR | T_MAILA | T_MAILB) {
            Some((RC_NOTIMP, "notimp-qtype-qclass"))
        } else {
            match cat.lookup(&q.name, q.qclass) {
                None => Some((RC_REFUSED, "refused")),
                Some(e) => match e.state {
                    EntryState::Loaded(_) => None,
                    _ => Some((RC_SERVFAIL, "servfail-unloaded")),
                },
            }
        }
    } else {
        None
    };
    match expect {
        None => {
            // served from a loaded zone: must not be REFUSED / NOTIMP
            if p.question.is_some() && h.opcode() == 0 && (m.ext_rcode() == RC_REFUSED || m.ext_rcode() == RC_NOTIMP) {
                return Err(("loaded-zone-refused".into(), format!("RCODE {} for a query inside a loaded zone", m.ext_rcode())));
            }
            Ok(Some("served"))
        }
        Some((rcode, label)) => {
            if m.ext_rcode() != rcode {
                return Err((format!("{}:rcode", label), format!("RCODE {} expected {}", m.ext_rcode(), rcode)));
            }
            if m.header.aa() {
                return Err((format!("{}:aa", label), "AA set".into()));
            }
            if !no_data(m) {
                return Err((format!("{}:records", label), "response carries records besides OPT/TSIG".into()));
            }
            Ok(Some(label))
        }
    }
}

/// C08: FORMERR for malformed requests.
fn m08(p: &Classified, m: &Msg) -> Result<Option<String>, (String, String)> {
    let h = p.header.as_ref().unwrap();
    let reason: &'static str = match &p.stop {
        Stop::FormErr(r) => r,
        Stop::Clean if h.opcode() == 0 && p.question.is_none() && h.qdcount == 0 => "QUERY without a question",
        _ => return Ok(None),
    };
    let mut ok_rcodes = vec![RC_FORMERR];
    if p.tsig.is_some() {
        // a TSIG error detected before the trailing octets / missing question
        ok_rcodes.push(RC_NOTAUTH);
    }
    if !ok_rcodes.contains(&m.ext_rcode()) {
        return Err((format!("{}:rcode", reason), format!("{}: RCODE {} instead of FORMERR", reason, m.ext_rcode())));
    }
    if m.section(Section::Answer).count() != 0 || m.section(Section::Authority).count() != 0 {
        return Err((format!("{}:data", reason), format!("{}: FORMERR response carries answer/authority data", reason)));
    }
    Ok(Some(reason.to_string()))
}

/// C09: EDNS handling.
fn m09(p: &Classified, server_payload: u16, m: &Msg) -> Result<String, (String, String)> {
    let n_opt = m.records.iter().filter(|r| r.rtype == T_OPT).count();
    if p.opt_reached {
        if n_opt != 1 {
            return Err(("opt-missing".into(), format!("{} OPT records in the response to an EDNS request", n_opt)));
        }
        let o = m.opt().unwrap();
        if o.section != Section::Additional {
            return Err(("opt-section".into(), "OPT outside the additional section".into()));
        }
        if !o.owner.name.0.is_empty() {
            return Err(("opt-owner".into(), "response OPT owner is not the root".into()));
        }
        if o.class != server_payload {
            return Err(("opt-payload".into(), format!("response OPT class {} != server payload size {}", o.class, server_payload)));
        }
        if (o.ttl >> 16) & 0xff != 0 {
            return Err(("opt-version".into(), format!("response OPT version {}", (o.ttl >> 16) & 0xff)));
        }
    } else if n_opt != 0 {
        return Err(("opt-unsolicited".into(), "OPT in the response to a request whose OPT (if any) was never reached".into()));
    }
    match &p.stop {
        Stop::BadVers => {
            if m.ext_rcode() != RC_BADVERS {
                return Err(("badvers-rcode".into(), format!("EDNS version {} answered with extended RCODE {} instead of BADVERS", p.opt.as_ref().map(|o| o.version).unwrap_or(0), m.ext_rcode())));
            }
            if !no_data(m) {
                return Err(("badvers-data".into(), "BADVERS response carries data".into()));
            }
            Ok("badvers".into())
        }
        Stop::FormErr("OPT owner is not the root") => {
            if m.ext_rcode() != RC_FORMERR {
                return Err(("opt-owner-rcode".into(), format!("non-root OPT owner answered with RCODE {}", m.ext_rcode())));
            }
            Ok("opt-owner".into())
        }
        _ => Ok(format!("opt{}:{}", p.opt_reached as u8, p.opt.as_ref().map(|o| (o.payload / 512).min(9)).unwrap_or(0))),
    }
}

fn udp_limit(p: &Classified, server_payload: u16) -> usize {
    match &p.opt {
        Some(o) => o.payload.clamp(512, server_payload.max(512)) as usize,
        None => 512,
    }
}

/// C04: size limit and truncation, from a UDP/TCP twin call.
fn m04(p: &Classified, server_payload: u16, u: &[u8], t: &[u8]) -> Result<String, (String, String)> {
    let limit = udp_limit(p, server_payload);
    if u.len() > limit {
        return Err(("over-limit".into(), format!("UDP response of {} octets exceeds the limit {}", u.len(), limit)));
    }
    let mu = m02(u).map_err(|e| ("udp-undecodable".to_string(), e))?;
    let mt = m02(t).map_err(|e| ("tcp-undecodable".to_string(), e))?;
    if mt.header.tc() {
        return Err(("tcp-tc".into(), "TC set in a TCP response".into()));
    }
    if mu.header.tc() {
        if !no_data(&mu) {
            return Err(("tc-with-data".into(), "UDP response has TC set but carries records".into()));
        }
        if t.len() <= limit {
            // One corner is not judged: over TCP the query ends in SERVFAIL only after a CNAME
            // chain was written and found to loop or to be too long (the partial chain is then
            // discarded), while over UDP a link of that chain already fails to fit. The statement's
            // first clause ("when the complete answer does not fit, set TC") covers the UDP side;
            // its second clause would require the server to foresee the SERVFAIL.
            if mt.header.rcode() as u16 == RC_SERVFAIL && no_data(&mt) && no_data(&mu) {
                return Ok(format!("tc-before-servfail:{}", limit));
            }
            return Err(("needless-tc".into(), format!("TC set although the complete response ({} octets) fits in {}", t.len(), limit)));
        }
        return Ok(format!("tc:{}", limit));
    }
    if t.len() <= limit {
        // signed responses: the TSIG records may differ in the time signed; compare the rest
        let strip = |m: &Msg, b: &[u8]| -> Vec<u8> {
            match m.tsig() {
                Some(t) => {
                    let mut v = b[..t.start].to_vec();
                    let ar = u16::from_be_bytes([v[10], v[11]]).wrapping_sub(1);
                    v[10..12].copy_from_slice(&ar.to_be_bytes());
                    v
                }
                None => b.to_vec(),
            }
        };
        if strip(&mu, u) != strip(&mt, t) || mu.tsig().is_some() != mt.tsig().is_some() {
            return Err(("differs-though-fits".into(), format!("complete response ({} octets) fits in {} but the UDP response differs", t.len(), limit)));
        }
        return Ok(format!("same:{}", limit));
    }
    // TC clear although the complete response does not fit: only
    // optional additional records may be missing.
    let sec = |m: &Msg, s: Section| -> Vec<Canon> { m.section(s).filter(|r| r.rtype != T_OPT && r.rtype != T_TSIG).map(canon_resp).collect() };
    if mu.header.rcode() != mt.header.rcode() || mu.header.aa() != mt.header.aa() {
        return Err(("partial-header".into(), "RCODE/AA differ between UDP and TCP".into()));
    }
    if sec(&mu, Section::Answer) != sec(&mt, Section::Answer) || sec(&mu, Section::Authority) != sec(&mt, Section::Authority) {
        return Err(("partial-sections".into(), "answer/authority differ while TC is clear".into()));
    }
    let au = sec(&mu, Section::Additional);
    let at = sec(&mt, Section::Additional);
    if t.len() > 65535 - 512 {
        // the TCP response is itself up against the 65535-octet limit and may have left optional
        // records out, so it is not the complete response the comparison needs
        return Ok(format!("tcp-at-its-own-limit:{}", limit));
    }
    for r in &au {
        if !at.contains(r) {
            return Err(("partial-extra".into(), "UDP additional record absent from the complete response".into()));
        }
    }
    // referral: omitted records must not be in-bailiwick glue
    let is_referral = !mt.header.aa() && mt.section(Section::Answer).count() == 0 && mt.section(Section::Authority).any(|r| r.rtype == T_NS);
    if is_referral {
        let cut = mt.section(Section::Authority).find(|r| r.rtype == T_NS).unwrap().owner.name.clone();
        for r in &at {
            if !au.contains(r) {
                let owner = RName::from_wire_all(&r.0).unwrap();
                if owner.is_at_or_below(&cut) {
                    return Err(("glue-omitted".into(), format!("in-bailiwick glue {} omitted with TC clear", show(r))));
                }
            }
        }
    }
    Ok(format!("partial:{}", limit))
}

// ---------------------------------------------------------------------
// driver
// ---------------------------------------------------------------------

fn response_class(m: &Msg) -> String {
    format!(
        "rc{}:aa{}:tc{}:an{}:ns{}:ar{}:opt{}:tsig{}",
        m.ext_rcode(),
        m.header.aa() as u8,
        m.header.tc() as u8,
        m.section(Section::Answer).count().min(3),
        m.section(Section::Authority).count().min(3),
        m.section(Section::Additional).filter(|r| r.rtype != T_OPT && r.rtype != T_TSIG).count().min(3),
        m.opt().is_some() as u8,
        m.tsig().is_some() as u8
    )
}

/// A name whose wire form is exactly `wire_len` octets (2..=255).
pub fn name_of_wire_len(rng: &mut Rng, wire_len: usize) -> RName {
    let mut remaining = wire_len.saturating_sub(1); // the root label
    let mut labels = Vec::new();
    while remaining > 0 {
        // a label of n data octets takes n + 1 octets
        let take = if remaining <= 64 { remaining } else if remaining == 65 { 63 } else { 64 };
        let data = take - 1;
        if data == 0 {
            break;
        }
        labels.push((0..data).map(|_| *rng.pick(b"qrs")).collect::<Vec<u8>>());
        remaining -= take;
    }
    RName(labels)
}

/// C01: sweeps the size of TSIG exchanges octet by octet across the
/// response size limit (question length x key-name length x TSIG
/// outcome), where space reservations for the TSIG record matter.
pub fn tsig_size_sweep(rep: &mut Report, rng: &mut Rng, prop: &str) {
    let key_len = *rng.pick(&[5usize, 40, 120, 200, 210, 230, 255]);
    let key = Key { name: name_of_wire_len(rng, key_len), alg: if rng.bool() { Alg::Sha1 } else { Alg::Sha256 }, secret: rng.bytes(32) };
    let cfg = ServerCfg { payload: *rng.pick(&[512u16, 600, 1232]), rrl: None, keys: vec![key.clone()] };
    let server = make_server(Arc::new(QCatalog::new()), &cfg);
    let mut bufs = Buffers::roomy(cfg.payload, rng);
    let now = now_unix();
    for variant in 0..5 {
        for edns in [None, Some(512u16), Some(cfg.payload)] {
            for l in 2..=255usize {
                let qn = name_of_wire_len(rng, l);
                let mut spec = MsgSpec { id: rng.u16(), ..Default::default() };
                spec.questions.push((Some(NameEnc::Plain(qn)), T_A, C_IN));
                if let Some(p) = edns {
                    spec.additionals.push(opt_record(p, 0, 0, 0, Vec::new()));
                }
                let (base, _) = encode(&spec);
                let mut o = SignOpts::at(now);
                match variant {
                    0 => {}
                    1 => o.time = now - 100_000,
                    2 => o.corrupt_mac = true,
                    3 => o.key_name_override = Some(name_of_wire_len(rng, key_len.max(3) - 1)),
                    _ => o.mac_len = Some(5),
                }
                let (req, _, _) = sign_request(&base, &key, &o);
                rep.eval();
                match handle(&server, &req, LOCALHOST, false, &mut bufs) {
                    Ok(resp) => {
                        let len = resp.as_ref().map(|r| r.len()).unwrap_or(0);
                        if resp.is_none() {
                            rep.violation(format!("{}:sweep-no-response", prop), format!("no response to a signed request (TSIG size sweep: variant {}, QNAME of {} octets, key name of {} octets, request {})", variant, l, key_len, hex(&req)), Json::obj(vec![("request", Json::hex(&req))]));
                            return;
                        }
                        rep.class(&format!("sweep:v{}:edns{}:len{}", variant, edns.is_some() as u8, len / 16));
                    }
                    Err(pi) => {
                        rep.violation(
                            if prop == "c01" { format!("c01:{}", pi.signature()) } else { format!("{}:no-response-panic:{}", prop, pi.signature()) },
                            format!("handle_message panicked at {}: {} (TSIG size sweep: variant {}, QNAME of {} octets, key name of {} octets, request {})", pi.location, pi.message, variant, l, key_len, hex(&req)),
                            Json::obj(vec![("request", Json::hex(&req)), ("key_name", Json::hex(&key.name.wire())), ("key_secret", Json::hex(&key.secret)), ("key_alg", Json::s(format!("{:?}", key.alg))), ("server_payload", Json::Int(cfg.payload as i128))]),
                        );
                        return;
                    }
                }
            }
        }
    }
    rep.hist("tsig-size-sweeps");
}

/// Exhaustive header words for C03 (every flag/opcode/rcode combination).
fn c03_header_sweep(ctx: &Ctx, rep: &mut Report) {
    let mut rng = ctx.rng("c03-sweep", 0);
    let mut sc = gen_scenario(&mut rng, "c03");
    let bodies: Vec<Vec<u8>> = vec![
        {
            let mut b = vec![0, 1, 0, 0, 0, 0, 0, 0];
            b.extend(RName::simple("WwW.ExAmPlE.tEsT.").wire());
            b.extend_from_slice(&[0, 1, 0, 1]);
            b
        },
        vec![0, 0, 0, 0, 0, 0, 0, 0],
    ];
    for word in 0u32..65536 {
        if (word as u64) % ctx.nshards != ctx.shard {
            continue;
        }
        for body in &bodies {
            let mut req = vec![0x12, 0x34, (word >> 8) as u8, word as u8];
            req.extend_from_slice(body);
            let p = classify(&req);
            let tcp = word & 1 == 1;
            rep.eval();
            let resp = match handle(&sc.server, &req, LOCALHOST, tcp, &mut sc.bufs) {
                Ok(r) => r,
                Err(pi) => {
                    rep.violation(format!("c03:{}", pi.signature()), format!("panic at {}: {}", pi.location, pi.message), wit(&sc, &req, tcp, &None));
                    continue;
                }
            };
            match m03(&req, &p, &resp) {
                Ok(class) => rep.class(&format!("sweep:{}", class)),
                Err((sig, detail)) => rep.violation(format!("c03:{}", sig), format!("{} (request {})", detail, hex(&req)), wit(&sc, &req, tcp, &resp)),
            }
        }
    }
    rep.extra("header_words_exhaustive", Json::Bool(true));
}

pub fn run(ctx: &Ctx, rep: &mut Report, prop: &str) {
    if prop == "c03" && ctx.only_case.is_none() && !ctx.is_miri() {
        c03_header_sweep(ctx, rep);
    }
    if matches!(prop, "c01" | "c02" | "c03" | "c04") {
        // these properties speak of "the response" a client gets, whatever the entry point
        crate::props::io::mini(ctx, rep, prop);
    }
    let (quick, thorough, per_scenario) = match prop {
        "c01" => (40_000u64, 160_000u64, 40usize),
        "c02" => (160_000, 480_000, 40),
        "c03" => (80_000, 320_000, 40),
        "c04" => (48_000, 120_000, 30),
        "c05" => (40_000, 160_000, 0),
        "c07" => (96_000, 400_000, 40),
        "c08" => (128_000, 384_000, 40),
        "c09" => (128_000, 384_000, 40),
        _ => unreachable!(),
    };
    let n = if ctx.is_miri() { ctx.cases(4, 160) } else { ctx.cases(quick, thorough) };
    for case in ctx.case_range(n) {
        rep.current_case = case;
        let mut rng = ctx.rng(prop, case);
        let mut sc = gen_scenario(&mut rng, prop);
        if !sc.built.disagreements.is_empty() && prop == "c05" {
            // zone construction itself disagrees with the model: that is C20's finding
            rep.hist("scenario:zone-add-disagreement");
        }
        if prop == "c05" {
            run_c05(rep, &mut rng, &mut sc);
            continue;
        }
        if prop == "c01" && !ctx.is_miri() && case % 16 == 5 {
            tsig_size_sweep(rep, &mut rng, "c01");
        }
        let per = if ctx.is_miri() { 6 } else { per_scenario };
        for _ in 0..per {
            let (req, how) = gen_request(&mut rng, &sc, prop);
            let tcp = match prop {
                "c04" => false,
                _ => rng.chance(1, 3),
            };
            let source = if prop == "c01" { random_source(&mut rng) } else { LOCALHOST };
            let signed_ok = how == "tsig-valid";
            let p = classify(&req);
            rep.eval();
            rep.hist(&format!("request:{}", how));
            let resp = match handle(&sc.server, &req, source, tcp, &mut sc.bufs) {
                Ok(r) => r,
                Err(pi) => {
                    // every property sees a panic as a missing response; C01 names it
                    let sig = if prop == "c01" { format!("c01:{}", pi.signature()) } else { format!("{}:no-response-panic:{}", prop, pi.signature()) };
                    rep.violation(sig, format!("handle_message panicked at {}: {} (request {}, {})", pi.location, pi.message, hex(&req), if tcp { "tcp" } else { "udp" }), {
                        let mut w = wit(&sc, &req, tcp, &None);
                        if let Json::Obj(ref mut items) = w {
                            items.push(("zone_data".into(), zone_dump(&sc)));
                        }
                        w
                    });
                    continue;
                }
            };
            let decoded = resp.as_ref().map(|r| m02(r));
            match (&resp, &decoded) {
                (Some(_), Some(Ok(m))) => rep.hist(&format!("response:{}", response_class(m))),
                (Some(_), Some(Err(_))) => rep.hist("response:undecodable"),
                _ => rep.hist("response:none"),
            }
            match prop {
                "c01" => {
                    // the oracle is the panic/abort monitor itself
                    let class = match &decoded {
                        Some(Ok(m)) => response_class(m),
                        Some(Err(_)) => "undecodable".into(),
                        None => "none".into(),
                    };
                    rep.class(&format!("{}:{}:{:?}", how, class, std::mem::discriminant(&p.stop)));
                }
                "c02" => {
                    if let (Some(r), Some(d)) = (&resp, &decoded) {
                        match d {
                            Ok(m) => {
                                // RDATA of a name-bearing type with a wrong tail is acceptable only
                                // when the zone itself holds that malformed RDATA (passed through).
                                for rec in m.records.iter().filter(|r| r.irregular) {
                                    let from_zone = sc.built.reference.entries.iter().any(|e| match &e.state {
                                        EntryState::Loaded(z) => z.offered.iter().any(|(o, res)| {
                                            res.is_ok() && o.rtype == rec.rtype && !rr::valid(o.class, o.rtype, &o.rdata) && rr::canon(o.class, o.rtype, &o.rdata).eq_ignore_ascii_case(&rr::canon(rec.class, rec.rtype, &rec.rdata))
                                        }),
                                        _ => false,
                                    });
                                    if from_zone {
                                        rep.hist("c02:malformed-zone-rdata-passed-through");
                                    } else {
                                        rep.violation(format!("c02:malformed-rdata:type{}", rec.rtype), format!("response record of type {} has malformed RDATA {} that is not in the zone data (response {}, request {})", rec.rtype, hex(&rec.rdata), hex(r), hex(&req)), wit(&sc, &req, tcp, &resp));
                                    }
                                }
                                rep.class(&format!("{}:{}", how, response_class(m)))
                            }
                            Err(e) => {
                                let sig: String = e.split(|c: char| c.is_ascii_digit()).next().unwrap_or("").trim().to_string();
                                rep.violation(format!("c02:{}", sig), format!("response does not decode: {} (response {}, request {})", e, hex(r), hex(&req)), wit(&sc, &req, tcp, &resp));
                            }
                        }
                    }
                }
                "c03" => match m03(&req, &p, &resp) {
                    Ok(class) => rep.class(&class),
                    Err((sig, detail)) => rep.violation(format!("c03:{}", sig), format!("{} (request {})", detail, hex(&req)), wit(&sc, &req, tcp, &resp)),
                },
                "c04" => {
                    if p.stop == Stop::NoResponse || (p.tsig.is_some() && !signed_ok) {
                        continue;
                    }
                    let t = match handle(&sc.server, &req, source, true, &mut sc.bufs) {
                        Ok(Some(t)) => t,
                        _ => continue,
                    };
                    if sc.cfg.rrl.is_some() {
                        // rate limiting may slip or drop the UDP response; what still must hold is
                        // that the TCP response never has TC set and the UDP response respects its limit
                        match m02(&t) {
                            Ok(mt) if mt.header.tc() => rep.violation("c04:tcp-tc", format!("TC set in a TCP response while rate limiting is on (request {})", hex(&req)), wit(&sc, &req, true, &Some(t.clone()))),
                            _ => {}
                        }
                        if let Some(u) = &resp {
                            if u.len() > udp_limit(&p, sc.cfg.payload) {
                                rep.violation("c04:over-limit", format!("UDP response of {} octets exceeds the limit (request {})", u.len(), hex(&req)), wit(&sc, &req, false, &resp));
                            }
                        }
                        rep.hist("c04:rrl-scenario");
                        continue;
                    }
                    let u = match &resp {
                        Some(u) => u,
                        None => {
                            rep.violation("c04:no-udp-response", format!("no UDP response (request {})", hex(&req)), wit(&sc, &req, false, &resp));
                            continue;
                        }
                    };
                    match m04(&p, sc.cfg.payload, u, &t) {
                        Ok(class) => {
                            rep.class(&format!("{}:{}", class.split(':').next().unwrap(), (t.len() / 256).min(40)));
                            rep.hist(&format!("c04:{}", class.split(':').next().unwrap()));
                        }
                        Err((sig, detail)) => {
                            let mut w = wit(&sc, &req, false, &resp);
                            if let Json::Obj(ref mut items) = w {
                                items.push(("tcp_response".into(), Json::hex(&t)));
                                items.push(("zone_data".into(), zone_dump(&sc)));
                            }
                            rep.violation(format!("c04:{}", sig), format!("{} (request {}, server payload {})", detail, hex(&req), sc.cfg.payload), w);
                        }
                    }
                }
                "c07" | "c08" | "c09" => {
                    let m = match (&resp, &decoded) {
                        (None, _) => {
                            if p.stop != Stop::NoResponse {
                                rep.violation(format!("{}:no-response", prop), format!("no response (request {})", hex(&req)), wit(&sc, &req, tcp, &resp));
                            }
                            continue;
                        }
                        (Some(_), Some(Ok(m))) => m,
                        _ => {
                            rep.hist("skipped:undecodable-response");
                            continue;
                        }
                    };
                    if p.stop == Stop::NoResponse {
                        continue;
                    }
                    let r = match prop {
                        "c07" => m07(&p, &sc.built.reference, m, signed_ok).map(|o| o.map(|s| s.to_string())),
                        "c08" => m08(&p, m),
                        _ => m09(&p, sc.cfg.payload, m).map(Some),
                    };
                    match r {
                        Ok(Some(class)) => rep.class(&format!("{}:{}", class, response_class(m))),
                        Ok(None) => rep.hist("not-applicable"),
                        Err((sig, detail)) => rep.violation(format!("{}:{}", prop, sig), format!("{} (request {})", detail, hex(&req)), wit(&sc, &req, tcp, &resp)),
                    }
                }
                _ => unreachable!(),
            }
            if rng.chance(1, 50) && rep.want_sample() {
                let w = wit(&sc, &req, tcp, &resp);
                rep.sample(|| w);
            }
        }
    }
}

fn run_c05(rep: &mut Report, rng: &mut Rng, sc: &mut Scenario) {
    let mut names = sc.names.clone();
    rng.shuffle(&mut names);
    names.truncate(48);
    for name in &names {
        let n_types = 3;
        for _ in 0..n_types {
            let qtype = *rng.pick(&QTYPES);
            let qclass = if rng.chance(1, 12) { *rng.pick(&[C_IN, C_CH, C_HS]) } else {
                // the class of some zone that could hold the name
                sc.built.reference.entries.iter().find(|e| name.is_at_or_below(&e.name)).map(|e| e.class).unwrap_or(C_IN)
            };
            let qn = random_case(rng, name);
            let mut spec = MsgSpec { id: rng.u16(), flags: if rng.bool() { 0x0100 } else { 0 }, ..Default::default() };
            spec.questions.push((Some(NameEnc::Plain(qn.clone())), qtype, qclass));
            let tcp = rng.chance(2, 3);
            if !tcp {
                spec.additionals.push(opt_record(65535, 0, 0, 0, Vec::new()));
            }
            let (mut req, _) = encode(&spec);
            if tcp && !sc.cfg.keys.is_empty() && rng.chance(1, 2) {
                // a validly signed query gets the same answer (plus a TSIG record); over TCP only,
                // because over UDP the space taken by the TSIG record may legitimately push
                // optional additional records out (that is C04's subject)
                let key = rng.pick(&sc.cfg.keys).clone();
                req = sign_request(&req, &key, &SignOpts::at(now_unix())).0;
            }
            let exp = respond(&sc.built.reference, &qn, qtype, qclass);
            rep.eval();
            if let Some(why) = &exp.unspecified {
                rep.hist(&format!("unspecified:{}", why));
                continue;
            }
            let resp = match handle(&sc.server, &req, LOCALHOST, tcp, &mut sc.bufs) {
                Ok(r) => r,
                Err(pi) => {
                    rep.violation(format!("c05:no-response-panic:{}", pi.signature()), format!("panic at {}: {} (query {} TYPE{} CLASS{})", pi.location, pi.message, qn.to_text(), qtype, qclass), wit(sc, &req, tcp, &None));
                    continue;
                }
            };
            let w = |sc: &Scenario, resp: &Option<Vec<u8>>| {
                let mut w = wit(sc, &req, tcp, resp);
                if let Json::Obj(ref mut items) = w {
                    items.push(("zone_data".into(), zone_dump(sc)));
                    items.push(("query".into(), Json::s(format!("{} TYPE{} CLASS{}", qn.to_text(), qtype, qclass))));
                }
                w
            };
            let r = match &resp {
                None => {
                    rep.violation("c05:no-response", format!("no response to {} TYPE{}", qn.to_text(), qtype), w(sc, &resp));
                    continue;
                }
                Some(r) => r,
            };
            let m = match m02(r) {
                Ok(m) => m,
                Err(e) => {
                    rep.violation("c05:undecodable", format!("response does not decode: {}", e), w(sc, &resp));
                    continue;
                }
            };
            if !tcp && m.header.tc() && r.len() > sc.cfg.payload as usize - 100 {
                rep.hist("skipped:udp-truncated");
                continue;
            }
            match m05(&exp, &m) {
                Ok(()) => {
                    rep.class(&format!("{}:{}:syn{}", exp.kind, response_class(&m), exp.source_of_synthesis.is_some() as u8));
                    rep.hist(&format!("kind:{}", exp.kind));
                }
                Err((sig, detail)) => rep.violation(format!("c05:{}", sig), format!("query {} TYPE{} CLASS{} ({}): {}", qn.to_text(), qtype, qclass, exp.kind, detail), w(sc, &resp)),
            }
            if rng.chance(1, 200) && rep.want_sample() {
                let ww = w(sc, &resp);
                rep.sample(|| ww);
            }
        }
    }
}

// ---------------------------------------------------------------------
// SingleZoneCatalog variant (C07 / C01): same monitors, other catalog
// ---------------------------------------------------------------------

pub fn run_single_zone(ctx: &Ctx, rep: &mut Report, prop: &str) {
    let n = if ctx.is_miri() { 2 } else { ctx.cases(300, 15_000) };
    for case in ctx.case_range(n) {
        rep.current_case = case;
        let mut rng = ctx.rng(&format!("{}-single", prop), case);
        let apex = RName::simple(APEXES[rng.below(APEXES.len())]);
        let class = *rng.pick(&[C_IN, C_CH]);
        let recs = gen_zone_records(&mut rng, &apex, class, &ZoneOpts { max_records: 10, hostile: prop == "c01", bulky: false });
        let (rz, qz, _) = build_zone(&apex, class, &recs);
        let state = rng.below(4);
        let (entry, rstate) = match state {
            0 => (Entry::NotYetLoaded(qname(&apex), quandary::class::Class::from(class), 1u64), EntryState::NotYetLoaded),
            1 => (Entry::FailedToLoad(qname(&apex), quandary::class::Class::from(class), 1u64), EntryState::FailedToLoad),
            _ => (Entry::Loaded(Arc::new(qz), 1u64), EntryState::Loaded(rz)),
        };
        let reference = RefCatalog { entries: vec![RefEntry { name: apex.clone(), class, state: rstate, id: 1 }] };
        let cat: SingleZoneCatalog<HashMapTreeZone, u64> = SingleZoneCatalog::new(entry);
        let cfg = ServerCfg { payload: 1232, rrl: None, keys: Vec::new() };
        let server = make_server(Arc::new(cat), &cfg);
        let mut bufs = Buffers::new(1232);
        let names = interesting_names(&mut rng, &reference);
        for _ in 0..30 {
            let spec = gen_query(&mut rng, &names, &[class, class, C_IN, C_CH], (1, 3));
            let (req, layout) = encode(&spec);
            let req = if prop == "c01" && rng.bool() { gen_hostile(&mut rng, &req, &layout) } else { req };
            let p = classify(&req);
            let tcp = rng.bool();
            rep.eval();
            let wj = Json::obj(vec![("request", Json::hex(&req)), ("catalog", Json::s("SingleZoneCatalog")), ("apex", Json::s(apex.to_text()))]);
            match handle(&server, &req, LOCALHOST, tcp, &mut bufs) {
                Err(pi) => rep.violation(format!("{}:single:{}", prop, pi.signature()), format!("panic at {}: {} (request {})", pi.location, pi.message, hex(&req)), wj),
                Ok(resp) => {
                    if prop == "c07" {
                        if let Some(r) = &resp {
                            if let Ok(m) = m02(r) {
                                match m07(&p, &reference, &m, false) {
                                    Ok(Some(class)) => rep.class(&format!("single:{}:{}", class, response_class(&m))),
                                    Ok(None) => {}
                                    Err((sig, detail)) => rep.violation(format!("c07:single:{}", sig), format!("{} (request {})", detail, hex(&req)), wj),
                                }
                            }
                        }
                    } else {
                        rep.class(&format!("single:{}", resp.is_some()));
                    }
                }
            }
        }
    }
}
