//! C19 — RDATA equality is an equivalence relation with the documented
//! meaning, and RDATA sets de-duplicate by it.

use quandary::class::Class;
use quandary::rr::{Rdata, RdataSetOwned, Type};

use crate::names::RName;
use crate::panicmon;
use crate::rdataref as rr;
use crate::report::{hex, Json, Report};
use crate::rng::Rng;
use crate::wire::*;
use crate::Ctx;

const EQ_TYPES: &[(u16, u16)] = &[
    (C_IN, T_NS),
    (C_IN, T_MD),
    (C_IN, T_MF),
    (C_IN, T_CNAME),
    (C_IN, T_MB),
    (C_IN, T_MG),
    (C_IN, T_MR),
    (C_IN, T_PTR),
    (C_IN, T_SOA),
    (C_IN, T_MINFO),
    (C_IN, T_MX),
    (C_IN, T_SRV),
    (C_CH, T_A),
    (C_CH, T_SRV),
    (C_CH, T_NS),
    (C_IN, T_A),
    (C_IN, T_TXT),
    (C_IN, T_HINFO),
    (C_IN, T_AAAA),
    (C_IN, 99),
    (C_HS, T_MX),
];

fn flip_case(rng: &mut Rng, v: &mut [u8]) {
    for c in v.iter_mut() {
        if c.is_ascii_alphabetic() && rng.chance(1, 3) {
            *c ^= 0x20;
        }
    }
}

/// A pool of RDATA for one (class, type) built from a tiny name pool so
/// that equal / almost-equal values are frequent.
fn gen_pool(rng: &mut Rng, class: u16, rtype: u16) -> Vec<Vec<u8>> {
    let names = [RName::simple("a.test."), RName::simple("b.test."), RName::simple("test."), RName::root(), RName::simple("A.b.test.")];
    let mut pool: Vec<Vec<u8>> = Vec::new();
    let n_base = rng.range(1, 3);
    for _ in 0..n_base {
        let mut f = |r: &mut Rng| r.pick(&names).clone();
        // small fixed fields so that collisions happen
        let mut v = rr::gen_valid(rng, class, rtype, &mut f);
        if let Some((prefix, _, suffix)) = rr::name_layout(class, rtype) {
            for b in v.iter_mut().take(prefix) {
                *b &= 1;
            }
            let l = v.len();
            for b in v[l - suffix..].iter_mut() {
                *b &= 1;
            }
        }
        pool.push(v);
    }
    let n_var = rng.range(2, 6);
    for _ in 0..n_var {
        let mut v = rng.pick(&pool).clone();
        match rng.below(8) {
            0 | 1 | 2 => flip_case(rng, &mut v),
            3 => {
                // trailing junk
                let n = rng.range(1, 3);
                v.extend(rng.bytes(n));
            }
            4 => {
                let cut = rng.below(v.len() + 1);
                v.truncate(cut);
            }
            5 => {
                flip_case(rng, &mut v);
                v.push(0);
            }
            6 => v = rr::mutate(rng, &v),
            _ => {}
        }
        pool.push(v);
    }
    pool
}

fn q<'a>(v: &'a [u8]) -> &'a Rdata {
    v.try_into().unwrap()
}

fn wit(class: u16, rtype: u16, items: &[&Vec<u8>]) -> Json {
    Json::obj(vec![
        ("class", Json::Int(class as i128)),
        ("type", Json::Int(rtype as i128)),
        ("rdata", Json::Arr(items.iter().map(|v| Json::hex(v)).collect())),
    ])
}

fn shape(class: u16, rtype: u16, a: &[u8]) -> &'static str {
    if rr::name_layout(class, rtype).is_none() {
        "plain"
    } else if rr::valid(class, rtype, a) {
        "wf"
    } else {
        "malformed"
    }
}

pub fn run(ctx: &Ctx, rep: &mut Report) {
    let n = if ctx.is_miri() { ctx.cases(40, 1600) } else { ctx.cases(60_000, 600_000) };
    for case in ctx.case_range(n) {
        rep.current_case = case;
        let mut rng = ctx.rng("c19", case);
        // RDATA shaped for (gclass, gtype) is mostly judged as that class and type, but
        // also under another class or type: name-aware comparison must apply exactly
        // where the format is defined (SRV only in IN, the CH A format only in CH, the
        // RFC 1035 name types in every class) and octet-wise comparison everywhere else
        let (gclass, gtype) = *rng.pick(EQ_TYPES);
        let (class, rtype) = match rng.below(6) {
            0 => (*rng.pick(&[C_IN, C_CH, C_HS, 254u16, 255, 0, 65280]), gtype),
            1 => (gclass, *rng.pick(&[T_TXT, T_NULL, T_AAAA, 65280u16, T_SRV, T_A, T_NS, T_MX])),
            _ => (gclass, gtype),
        };
        let pool = gen_pool(&mut rng, gclass, gtype);
        let (qc, qt) = (Class::from(class), Type::from(rtype));
        let result = panicmon::catch(|| {
            let n = pool.len();
            let mut eq = vec![vec![false; n]; n];
            for i in 0..n {
                for j in 0..n {
                    eq[i][j] = q(&pool[i]).equals(q(&pool[j]), qc, qt);
                }
            }
            eq
        });
        let eq = match result {
            Ok(eq) => eq,
            Err(p) => {
                let refs: Vec<&Vec<u8>> = pool.iter().collect();
                rep.violation(format!("c19:equals:{}", p.signature()), format!("Rdata::equals panicked at {}: {}", p.location, p.message), wit(class, rtype, &refs));
                continue;
            }
        };
        let n = pool.len();
        for i in 0..n {
            rep.eval();
            if !eq[i][i] {
                rep.violation(format!("c19:reflexivity:type{}", rtype), format!("class {} type {}: {} is not equal to itself", class, rtype, hex(&pool[i])), wit(class, rtype, &[&pool[i]]));
            }
            for j in 0..n {
                rep.eval();
                let want = rr::ref_eq(class, rtype, &pool[i], &pool[j]);
                if eq[i][j] != want {
                    rep.violation(
                        format!("c19:meaning:type{}:{}", rtype, if want { "unequal" } else { "equal" }),
                        format!("class {} type {}: equals({}, {}) = {}, reference {}", class, rtype, hex(&pool[i]), hex(&pool[j]), eq[i][j], want),
                        wit(class, rtype, &[&pool[i], &pool[j]]),
                    );
                }
                if eq[i][j] != eq[j][i] {
                    rep.violation(
                        format!("c19:symmetry:type{}", rtype),
                        format!("class {} type {}: equals({}, {}) = {} but the converse is {}", class, rtype, hex(&pool[i]), hex(&pool[j]), eq[i][j], eq[j][i]),
                        wit(class, rtype, &[&pool[i], &pool[j]]),
                    );
                }
                rep.class(&format!("pair:{}:{}:{}:{}:{}", class, rtype, shape(class, rtype, &pool[i]), shape(class, rtype, &pool[j]), want));
                for k in 0..n {
                    if eq[i][j] && eq[j][k] && !eq[i][k] {
                        rep.violation(
                            format!("c19:transitivity:type{}", rtype),
                            format!("class {} type {}: a={} b={} c={}: a=b, b=c, a!=c", class, rtype, hex(&pool[i]), hex(&pool[j]), hex(&pool[k])),
                            wit(class, rtype, &[&pool[i], &pool[j], &pool[k]]),
                        );
                    }
                }
            }
        }
        // RRset de-duplication: keeps the first member of each class, in order
        rep.eval();
        let mut order: Vec<usize> = (0..n).collect();
        rng.shuffle(&mut order);
        let seq: Vec<&Vec<u8>> = order.iter().map(|i| &pool[*i]).collect();
        let mut want: Vec<&Vec<u8>> = Vec::new();
        for s in &seq {
            if !want.iter().any(|w| rr::ref_eq(class, rtype, w, s)) {
                want.push(s);
            }
        }
        let got = panicmon::catch(|| {
            let mut set = RdataSetOwned::from(q(seq[0]));
            let mut inserted = vec![true];
            for s in &seq[1..] {
                inserted.push(set.insert(qc, qt, q(s)));
            }
            let via_insert: Vec<Vec<u8>> = set.iter().map(|r| r.octets().to_vec()).collect();
            let via_iter: Vec<Vec<u8>> = RdataSetOwned::from_iter(qc, qt, seq.iter().map(|s| q(s)))
                .map(|s| s.iter().map(|r| r.octets().to_vec()).collect())
                .unwrap_or_default();
            (via_insert, via_iter, inserted)
        });
        match got {
            Err(p) => rep.violation(format!("c19:rdataset:{}", p.signature()), format!("RdataSetOwned panicked at {}: {}", p.location, p.message), wit(class, rtype, &seq)),
            Ok((via_insert, via_iter, inserted)) => {
                let want_v: Vec<Vec<u8>> = want.iter().map(|w| (*w).clone()).collect();
                if via_insert != want_v {
                    rep.violation(
                        format!("c19:rdataset-insert:type{}", rtype),
                        format!("class {} type {}: inserting {:?} keeps {:?}, expected {:?}", class, rtype, seq.iter().map(|s| hex(s)).collect::<Vec<_>>(), via_insert.iter().map(|s| hex(s)).collect::<Vec<_>>(), want_v.iter().map(|s| hex(s)).collect::<Vec<_>>()),
                        wit(class, rtype, &seq),
                    );
                }
                if via_iter != want_v {
                    rep.violation(format!("c19:rdataset-from_iter:type{}", rtype), format!("class {} type {}: from_iter keeps a different set than the reference", class, rtype), wit(class, rtype, &seq));
                }
                // insert() returns whether the value was new
                let mut seen: Vec<&Vec<u8>> = Vec::new();
                for (s, ins) in seq.iter().zip(inserted.iter()) {
                    let new = !seen.iter().any(|w| rr::ref_eq(class, rtype, w, s));
                    if new {
                        seen.push(s);
                    }
                    if new != *ins {
                        rep.violation(format!("c19:rdataset-insert-result:type{}", rtype), format!("insert({}) returned {}, expected {}", hex(s), ins, new), wit(class, rtype, &seq));
                    }
                }
                rep.class(&format!("set:{}:{}:{}of{}", class, rtype, want.len(), n));
            }
        }
        if case % 600 == 5 {
            rep.sample(|| wit(class, rtype, &pool.iter().collect::<Vec<_>>()));
        }
    }
}
