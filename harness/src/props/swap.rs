//! C32 — concurrent catalog and key-set swaps never mix snapshots.
//!
//! Generation g of the catalog makes one query carry g in every section
//! (answer: CNAME target t-g, authority: NS ns-g, additional: glue owner
//! ns-g with address 10.hi.lo.1); key set g holds only key k-g. Reader
//! threads query while a swapper (and, through failpoints, the request
//! handling threads themselves) replace catalog and key set.

use std::sync::atomic::{AtomicBool, AtomicU64, Ordering};
use std::sync::{Arc, Mutex};
use std::time::{Duration, Instant};

use quandary::db::catalog::Entry;
use quandary::server::Server;
use quandary::verif;

use crate::gen::*;
use crate::hmac::{self, Alg, Kind, TsigVars};
use crate::msgbuild::*;
use crate::names::RName;
use crate::props::server::m02;
use crate::reqgen::{sign_request, SignOpts};
use crate::report::{hex, Json, Report};
use crate::rng::Rng;
use crate::srv::*;
use crate::wire::*;
use crate::zonemodel::RRec;
use crate::Ctx;

fn gen_catalog_for(g: u64) -> QCatalog {
    let apex = RName::simple("z.");
    let sub = RName::simple("sub.z.");
    let ns = sub.child(format!("ns-{}", g).as_bytes());
    let target = sub.child(format!("t-{}", g).as_bytes());
    let recs = vec![
        RRec { owner: apex.clone(), rtype: T_SOA, class: C_IN, ttl: 60, rdata: soa_rdata(&apex.child(b"ns"), &apex.child(b"hm"), g as u32, 60) },
        RRec { owner: apex.clone(), rtype: T_NS, class: C_IN, ttl: 60, rdata: RName::simple("ns.elsewhere.").wire() },
        RRec { owner: RName::simple("q.z."), rtype: T_CNAME, class: C_IN, ttl: 60, rdata: target.wire() },
        RRec { owner: sub.clone(), rtype: T_NS, class: C_IN, ttl: 60, rdata: ns.wire() },
        RRec { owner: ns.clone(), rtype: T_A, class: C_IN, ttl: 60, rdata: vec![10, (g >> 8) as u8, g as u8, 1] },
    ];
    let (_, qz, d) = build_zone(&apex, C_IN, &recs);
    assert!(d.is_empty(), "generation zone rejected: {:?}", d);
    let mut cat = QCatalog::new();
    cat.insert(Entry::Loaded(Arc::new(qz), g));
    cat
}

fn key_for(g: u64) -> Key {
    let mut secret = Vec::new();
    for i in 0..4u64 {
        secret.extend_from_slice(&crate::rng::fnv1a(&[g.to_be_bytes(), i.to_be_bytes()].concat()).to_be_bytes());
    }
    Key { name: RName::simple(&format!("k-{}.", g)), alg: Alg::Sha256, secret }
}

/// The rolled-over key: same name in every key set, a different secret
/// per generation.
fn rot_key_for(g: u64) -> Key {
    let mut secret = Vec::new();
    for i in 0..4u64 {
        secret.extend_from_slice(&crate::rng::fnv1a(&[g.to_be_bytes(), (i + 100).to_be_bytes()].concat()).to_be_bytes());
    }
    Key { name: RName::simple("rot."), alg: Alg::Sha256, secret }
}

fn marker(label: &[u8], prefix: &str) -> Option<u64> {
    let s = std::str::from_utf8(label).ok()?;
    s.strip_prefix(prefix)?.parse().ok()
}

/// Extracts the generation markers of every section of a response.
fn markers(m: &Msg) -> Vec<(&'static str, u64)> {
    let mut out = Vec::new();
    for r in &m.records {
        match (r.section, r.rtype) {
            (Section::Answer, T_CNAME) => {
                if let Some(n) = r.rdata_names.first() {
                    if let Some(g) = n.name.0.first().and_then(|l| marker(l, "t-")) {
                        out.push(("answer", g));
                    }
                }
            }
            (Section::Authority, T_NS) => {
                if let Some(n) = r.rdata_names.first() {
                    if let Some(g) = n.name.0.first().and_then(|l| marker(l, "ns-")) {
                        out.push(("authority", g));
                    }
                }
            }
            (Section::Additional, T_A) => {
                if let Some(g) = r.owner.name.0.first().and_then(|l| marker(l, "ns-")) {
                    out.push(("additional-owner", g));
                }
                if r.rdata.len() == 4 {
                    out.push(("additional-address", ((r.rdata[1] as u64) << 8) | r.rdata[2] as u64));
                }
            }
            _ => {}
        }
    }
    out
}

struct Shared {
    server: Server<QCatalog>,
    catalogs: Vec<Arc<QCatalog>>,
    keysets: Vec<Arc<quandary::server::TsigKeyMap>>,
    /// catalog swaps are ordered among themselves, key-set swaps among themselves; a catalog swap
    /// and a key-set swap may run at the same time (two different callers of the two setters)
    cat_lock: Mutex<()>,
    key_lock: Mutex<()>,
    cat_started: AtomicU64,
    cat_published: AtomicU64,
    key_started: AtomicU64,
    key_published: AtomicU64,
    stop: AtomicBool,
    in_request_swaps: AtomicU64,
    fp_mode: AtomicU64,
}

impl Shared {
    /// Publishes the next catalog generation (totally ordered).
    fn swap_catalog(&self) -> bool {
        let _g = self.cat_lock.lock().unwrap();
        let next = self.cat_started.load(Ordering::SeqCst) + 1;
        if next as usize >= self.catalogs.len() {
            return false;
        }
        self.cat_started.store(next, Ordering::SeqCst);
        self.server.set_catalog(self.catalogs[next as usize].clone());
        self.cat_published.store(next, Ordering::SeqCst);
        true
    }
    fn swap_keys(&self) -> bool {
        let _g = self.key_lock.lock().unwrap();
        let next = self.key_started.load(Ordering::SeqCst) + 1;
        if next as usize >= self.keysets.len() {
            return false;
        }
        self.key_started.store(next, Ordering::SeqCst);
        self.server.set_tsig_keys(self.keysets[next as usize].clone());
        self.key_published.store(next, Ordering::SeqCst);
        true
    }
}

static CURRENT: Mutex<Option<Arc<Shared>>> = Mutex::new(None);
/// Failpoint mode of the running history, readable without taking any
/// lock (mode 0 must not add synchronisation between handler threads).
static FP_MODE: AtomicU64 = AtomicU64::new(0);
static INSTALLED: AtomicBool = AtomicBool::new(false);
thread_local! {
    static FP_COUNTER: std::cell::Cell<u64> = std::cell::Cell::new(0);
}

fn install_callback() {
    if INSTALLED.swap(true, Ordering::SeqCst) {
        return;
    }
    verif::set_failpoint_callback(Some(Box::new(|id| {
        if id != verif::SERVER_AFTER_CATALOG_SNAPSHOT && id != verif::SERVER_BEFORE_DISPATCH {
            return;
        }
        let mode = FP_MODE.load(Ordering::Relaxed);
        if mode == 0 {
            return;
        }
        let shared = match CURRENT.lock().unwrap().as_ref() {
            Some(s) => s.clone(),
            None => return,
        };
        let n = FP_COUNTER.with(|c| {
            c.set(c.get() + 1);
            c.get()
        });
        // swap inside the request, on the handling thread, every few requests
        if n % 3 == 0 {
            let did = if id == verif::SERVER_AFTER_CATALOG_SNAPSHOT { shared.swap_catalog() } else if mode == 2 { shared.swap_keys() } else { shared.swap_catalog() };
            if did {
                shared.in_request_swaps.fetch_add(1, Ordering::Relaxed);
            }
        } else if n % 3 == 1 {
            std::thread::yield_now();
        }
    })));
}

#[derive(Debug)]
struct Problem {
    sig: String,
    detail: String,
    request: Vec<u8>,
    response: Option<Vec<u8>>,
}

fn reader_loop(shared: Arc<Shared>, tid: usize, signed: bool, seed: u64, problems: Arc<Mutex<Vec<Problem>>>, stats: Arc<[AtomicU64; 6]>, max_requests: u64) {
    let mut rng = Rng::new(seed);
    let mut bufs = Buffers::new(1232);
    let qn = RName::simple("q.z.");
    let mut last_key_gen: u64 = 0;
    let mut n = 0u64;
    while !shared.stop.load(Ordering::Relaxed) && n < max_requests {
        n += 1;
        let mut spec = MsgSpec { id: rng.u16(), ..Default::default() };
        spec.questions.push((Some(NameEnc::Plain(qn.clone())), T_A, C_IN));
        let (base, _) = encode(&spec);
        let now = std::time::SystemTime::now().duration_since(std::time::UNIX_EPOCH).unwrap().as_secs();
        let (req, key, sent_mac) = if signed {
            // sign with the key of the generation last seen (or a fresh look at what is published)
            let kg = if rng.chance(1, 3) { shared.key_published.load(Ordering::SeqCst) } else { last_key_gen };
            let rot = rng.bool();
            let key = if rot { rot_key_for(kg) } else { key_for(kg) };
            let (r, _, sent) = sign_request(&base, &key, &SignOpts::at(now));
            (r, Some((kg, key, rot)), sent)
        } else {
            (base, None, Vec::new())
        };
        let tcp = rng.bool();
        let cat_lo = shared.cat_published.load(Ordering::SeqCst);
        let key_lo = shared.key_published.load(Ordering::SeqCst);
        let resp = handle(&shared.server, &req, LOCALHOST, tcp, &mut bufs);
        let cat_hi = shared.cat_started.load(Ordering::SeqCst);
        let key_hi = shared.key_started.load(Ordering::SeqCst);
        stats[0].fetch_add(1, Ordering::Relaxed);
        let mut report = |sig: &str, detail: String, resp: Option<Vec<u8>>| {
            problems.lock().unwrap().push(Problem { sig: sig.to_string(), detail, request: req.clone(), response: resp });
        };
        let r = match resp {
            Err(p) => {
                report("panic", format!("panic at {}: {}", p.location, p.message), None);
                continue;
            }
            Ok(None) => {
                report("no-response", "no response".into(), None);
                continue;
            }
            Ok(Some(r)) => r,
        };
        let m = match m02(&r) {
            Ok(m) => m,
            Err(e) => {
                report("undecodable", e, Some(r));
                continue;
            }
        };
        let ms = markers(&m);
        let mut answered = false;
        if !ms.is_empty() {
            answered = true;
            let g0 = ms[0].1;
            if ms.iter().any(|(_, g)| *g != g0) {
                report("mixed-catalog-snapshots", format!("one response carries generations {:?}", ms), Some(r.clone()));
                continue;
            }
            let sections: std::collections::BTreeSet<&str> = ms.iter().map(|(s, _)| *s).collect();
            if sections.len() < 4 {
                report("incomplete-answer", format!("markers only in {:?}", sections), Some(r.clone()));
                continue;
            }
            if g0 < cat_lo {
                report("stale-catalog", format!("response from catalog generation {} although generation {} had been published before the request started", g0, cat_lo), Some(r.clone()));
                continue;
            }
            if g0 > cat_hi {
                report("future-catalog", format!("response from catalog generation {} but only {} had been started", g0, cat_hi), Some(r.clone()));
                continue;
            }
            stats[1].fetch_add(1, Ordering::Relaxed);
            if cat_hi > cat_lo {
                stats[2].fetch_add(1, Ordering::Relaxed); // a swap overlapped this request
            }
        }
        if let Some((kg, key, rot)) = key {
            let t = match m.tsig() {
                Some(t) => t.clone(),
                None => {
                    report("tsig-missing", "no TSIG in the response to a signed request".into(), Some(r.clone()));
                    continue;
                }
            };
            let f = match parse_tsig_rdata(&t.rdata_raw) {
                Some(f) => f,
                None => {
                    report("tsig-unparseable", "response TSIG does not parse".into(), Some(r.clone()));
                    continue;
                }
            };
            if !t.owner.name.eq_ci(&key.name) {
                report("foreign-key-name", format!("response TSIG carries key name {} for a request signed with {}", t.owner.name.to_text(), key.name.to_text()), Some(r.clone()));
                continue;
            }
            if f.error == 0 && m.ext_rcode() == RC_NOERROR {
                // full answer: must verify under the request's key, and that key must have been current
                let vars = TsigVars { key_name: t.owner.name.clone(), algorithm: f.algorithm.clone(), time_signed: f.time_signed, fudge: f.fudge, error: 0, other: vec![] };
                let want = hmac::tsig_mac(Alg::Sha256, &key.secret, Kind::Response, &sent_mac, &r[..t.start], f.original_id, &vars);
                if f.mac != want {
                    report("response-mac", "signed response does not verify under the request's key".into(), Some(r.clone()));
                    continue;
                }
                if !answered {
                    report("signed-without-answer", "successful TSIG response without the answer".into(), Some(r.clone()));
                    continue;
                }
                if kg < key_lo || kg > key_hi {
                    report("key-snapshot-out-of-window", format!("request signed with key generation {} succeeded although only generations {}..={} could have been current", kg, key_lo, key_hi), Some(r.clone()));
                    continue;
                }
                stats[3].fetch_add(1, Ordering::Relaxed);
                last_key_gen = kg;
            } else if f.error == (if rot { RC_BADSIG } else { RC_BADKEY }) && m.ext_rcode() == RC_NOTAUTH {
                // the rolled-over name is in every key set (a stale secret gives BADSIG);
                // the per-generation names are in exactly one (a stale name gives BADKEY)
                if answered || !f.mac.is_empty() {
                    report("badkey-with-data", "BADKEY/BADSIG response carries answer data or a MAC".into(), Some(r.clone()));
                    continue;
                }
                if key_lo == key_hi && key_lo == kg {
                    report("current-key-rejected", format!("key generation {} was the only one that could be current, yet TSIG error {}", kg, f.error), Some(r.clone()));
                    continue;
                }
                stats[4].fetch_add(1, Ordering::Relaxed);
                last_key_gen = shared.key_published.load(Ordering::SeqCst);
            } else {
                report("unexpected-tsig-outcome", format!("RCODE {} TSIG error {}", m.ext_rcode(), f.error), Some(r.clone()));
                continue;
            }
        } else if !answered {
            report("unsigned-without-answer", format!("RCODE {} without the expected answer", m.ext_rcode()), Some(r.clone()));
        }
        let _ = tid;
    }
}

pub fn run(ctx: &Ctx, rep: &mut Report) {
    install_callback();
    verif::reset_failpoint_hits();
    let n = if ctx.is_miri() { ctx.cases(1, 16) } else { ctx.cases(160, 1_600) };
    let gens = if ctx.is_miri() { 6 } else { 300 };
    // generation catalogs and key sets are built once per shard
    let catalogs: Vec<Arc<QCatalog>> = (0..gens as u64).map(|g| Arc::new(gen_catalog_for(g))).collect();
    let keysets: Vec<Arc<quandary::server::TsigKeyMap>> = (0..(gens * 8) as u64).map(|g| Arc::new(key_map(&[key_for(g), rot_key_for(g)]))).collect();
    let pair_base: u64 = 1000;
    let pair_catalogs: Vec<Arc<QCatalog>> = if ctx.is_miri() { Vec::new() } else { (0..48u64).map(|g| Arc::new(gen_catalog_for(pair_base + g))).collect() };
    for case in ctx.case_range(n) {
        rep.current_case = case;
        let mut rng = ctx.rng("c32", case);
        let server = make_server(catalogs[0].clone(), &ServerCfg { payload: 1232, rrl: None, keys: vec![] });
        server.set_tsig_keys(keysets[0].clone());
        let fp_mode = if ctx.is_miri() { 0 } else { rng.below(3) as u64 };
        let shared = Arc::new(Shared {
            server,
            catalogs: catalogs.clone(),
            keysets: keysets.clone(),
            cat_lock: Mutex::new(()),
            key_lock: Mutex::new(()),
            cat_started: AtomicU64::new(0),
            cat_published: AtomicU64::new(0),
            key_started: AtomicU64::new(0),
            key_published: AtomicU64::new(0),
            stop: AtomicBool::new(false),
            in_request_swaps: AtomicU64::new(0),
            fp_mode: AtomicU64::new(fp_mode),
        });
        *CURRENT.lock().unwrap() = Some(shared.clone());
        FP_MODE.store(fp_mode, Ordering::Relaxed);
        let problems: Arc<Mutex<Vec<Problem>>> = Arc::new(Mutex::new(Vec::new()));
        let stats: Arc<[AtomicU64; 6]> = Arc::new(Default::default());
        let readers = if ctx.is_miri() { 2 } else { rng.range(2, 12) };
        let max_requests = if ctx.is_miri() { 3 } else { 100_000 };
        let mut handles = Vec::new();
        for t in 0..readers {
            let signed = !ctx.is_miri() && t % 2 == 1;
            let (s, p, st) = (shared.clone(), problems.clone(), stats.clone());
            let seed = rng.next_u64();
            handles.push(std::thread::spawn(move || reader_loop(s, t, signed, seed, p, st, max_requests)));
        }
        // swapper
        let pause_us = *rng.pick(&[0u64, 0, 20, 200]);
        let started = Instant::now();
        let budget = Duration::from_millis(if ctx.is_miri() { 60_000 } else { 60 });
        let mut swaps = 0u64;
        // in half of the histories a second thread rolls the keys over while this one swaps
        // catalogs, so that the two setters run at the same time
        let two_swappers = !ctx.is_miri() && rng.bool();
        let key_swapper = if two_swappers {
            let sh = shared.clone();
            Some(std::thread::spawn(move || {
                while !sh.stop.load(Ordering::Relaxed) {
                    if !sh.swap_keys() {
                        break;
                    }
                    std::hint::spin_loop();
                }
            }))
        } else {
            None
        };
        loop {
            // catalogs run out first; key rollovers continue until the budget ends
            let more = if two_swappers { shared.swap_catalog() || { std::thread::yield_now(); true } } else if swaps % 2 == 0 { shared.swap_catalog() || shared.swap_keys() } else { shared.swap_keys() };
            swaps += 1;
            if !more || started.elapsed() > budget {
                break;
            }
            if ctx.is_miri() && swaps >= 6 {
                break;
            }
            if pause_us > 0 {
                std::thread::sleep(Duration::from_micros(pause_us));
            } else {
                std::thread::yield_now();
            }
        }
        shared.stop.store(true, Ordering::Relaxed);
        if let Some(h) = key_swapper {
            let _ = h.join();
        }
        let mut panicked = false;
        for h in handles {
            if h.join().is_err() {
                panicked = true;
            }
        }
        FP_MODE.store(0, Ordering::Relaxed);
        *CURRENT.lock().unwrap() = None;
        // two callers of set_catalog at the same instant: when both have returned, the catalog in
        // use must be one of the two they installed (not an older one)
        if !ctx.is_miri() {
            let mut bufs = Buffers::new(1232);
            let qn = RName::simple("q.z.");
            for trial in 0..24u64 {
                let (a, b) = (pair_base + 2 * trial, pair_base + 2 * trial + 1);
                let gate = std::sync::atomic::AtomicUsize::new(0);
                std::thread::scope(|sc| {
                    for g in [a, b] {
                        let (server, cat, gate) = (&shared.server, pair_catalogs[(g - pair_base) as usize].clone(), &gate);
                        sc.spawn(move || {
                            gate.fetch_add(1, Ordering::SeqCst);
                            while gate.load(Ordering::SeqCst) < 2 {
                                std::hint::spin_loop();
                            }
                            server.set_catalog(cat);
                        });
                    }
                });
                let mut spec = MsgSpec { id: trial as u16, ..Default::default() };
                spec.questions.push((Some(NameEnc::Plain(qn.clone())), T_A, C_IN));
                let (req, _) = encode(&spec);
                rep.eval();
                if let Ok(Some(r)) = handle(&shared.server, &req, LOCALHOST, true, &mut bufs) {
                    if let Ok(m) = m02(&r) {
                        let ms = markers(&m);
                        if let Some((_, g0)) = ms.first() {
                            if *g0 != a && *g0 != b {
                                rep.violation("c32:concurrent-set-catalog-lost", format!("two threads installed catalog generations {} and {} at the same time; after both returned a request was answered from generation {}", a, b, g0), Json::obj(vec![("response", Json::hex(&r))]));
                                break;
                            }
                            rep.hist("concurrent-set-catalog-pairs");
                        }
                    }
                }
            }
        }
        rep.eval();
        let total = stats[0].load(Ordering::Relaxed);
        rep.evals(total);
        if panicked {
            rep.violation("c32:reader-thread-panicked", "a reader thread panicked".to_string(), Json::Null);
        }
        let problems = std::mem::take(&mut *problems.lock().unwrap());
        for p in problems.iter().take(5) {
            rep.violation(
                format!("c32:{}", p.sig),
                format!("{} ({} readers, failpoint mode {})", p.detail, readers, fp_mode),
                Json::obj(vec![("request", Json::hex(&p.request)), ("response", p.response.as_ref().map(|r| Json::hex(r)).unwrap_or(Json::Null)), ("readers", Json::Int(readers as i128)), ("failpoint_mode", Json::Int(fp_mode as i128))]),
            );
        }
        if problems.is_empty() {
            let overlapped = stats[2].load(Ordering::Relaxed);
            rep.class(&format!("r{}:fp{}:gens{}:overlap{}:signed-ok{}:badkey{}", readers, fp_mode, shared.cat_published.load(Ordering::SeqCst).min(300) / 20, (overlapped > 0) as u8, (stats[3].load(Ordering::Relaxed) > 0) as u8, (stats[4].load(Ordering::Relaxed) > 0) as u8));
            rep.hist_n("responses-judged", total);
            rep.hist_n("responses-overlapping-a-swap", overlapped);
            rep.hist_n("in-request-swaps", shared.in_request_swaps.load(Ordering::Relaxed));
            rep.hist_n("signed-answers-verified", stats[3].load(Ordering::Relaxed));
            rep.hist_n("badkey-responses", stats[4].load(Ordering::Relaxed));
            rep.hist_n("catalog-generations-published", shared.cat_published.load(Ordering::SeqCst));
        }
        if case % 40 == 0 {
            rep.sample(|| Json::obj(vec![("readers", Json::Int(readers as i128)), ("failpoint_mode", Json::Int(fp_mode as i128)), ("requests", Json::Int(total as i128)), ("catalog_generations", Json::Int(shared.cat_published.load(Ordering::SeqCst) as i128)), ("key_generations", Json::Int(shared.key_published.load(Ordering::SeqCst) as i128))]));
        }
    }
    let hits: Vec<(String, Json)> = verif::FAILPOINT_NAMES.iter().enumerate().map(|(i, n)| (n.to_string(), Json::Int(verif::failpoint_hits(i) as i128))).collect();
    rep.extra("hook_hits", Json::Obj(hits));
}
