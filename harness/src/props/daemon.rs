//! C31 — reloading keeps every zone on its own latest good data.
//!
//! The real `quandaryd` binary (built from /repo by the driver) runs as
//! a child process on a loopback port with a generated configuration.
//! Each step edits the configuration and/or zone files, sends SIGHUP,
//! waits for the reload to become visible (a sentinel zone whose serial
//! is the step number) and then queries every zone; a reference state
//! machine keyed by exact (name, class) says what must be observed.

use std::collections::BTreeMap;
use std::io::Write;
use std::net::{IpAddr, Ipv4Addr, SocketAddr, TcpListener, UdpSocket};
use std::path::{Path, PathBuf};
use std::process::{Child, Command, Stdio};
use std::time::{Duration, Instant, SystemTime};

use crate::msgbuild::*;
use crate::names::RName;
use crate::props::server::m02;
use crate::report::{hex, Json, Report};
use crate::rng::Rng;
use crate::wire::*;
use crate::Ctx;

const UNIVERSE: [&str; 6] = ["z.", "sub.z.", "a.sub.z.", "b.z.", "other.", "deep.er.other."];

#[derive(Clone, Copy, Debug, PartialEq, Eq)]
enum FileKind {
    Valid,
    /// valid, but validation reports a warning (MX exchange in the zone without an address)
    ValidWarn,
    Syntax,
    /// a fatal validation issue only (no apex NS)
    Semantic,
    /// a fatal validation issue (no apex NS) together with a warning
    SemanticWarn,
    Missing,
}

#[derive(Clone, Copy, Debug, PartialEq, Eq)]
enum State {
    Absent,
    FailedNeverLoaded,
    Serving(u32),
}

#[derive(Clone, Debug)]
struct ZoneFile {
    version: u32,
    kind: FileKind,
    /// true if the file changed since the daemon last looked at it
    touched: bool,
    /// which of the zone's two paths the configuration names
    alt: bool,
    /// version and kind of the file staged under the other path, if any
    staged: Option<(u32, FileKind)>,
    /// the file that the zone file $INCLUDEs is currently broken (the zone file itself may be fine)
    inc_broken: bool,
}

/// The zone file of `name`; `inc` is the absolute path of a file it includes at the end (a
/// failure may then come from outside the zone file, and be repaired without touching it).
fn zone_text_inc(name: &str, version: u32, kind: FileKind, inc: &Path) -> String {
    let mut t = zone_text(name, version, kind);
    if !matches!(kind, FileKind::Syntax | FileKind::Missing) {
        t.push_str(&format!("$INCLUDE {}\n", inc.display()));
    }
    t
}

fn inc_text(broken: bool) -> &'static str {
    if broken {
        "i 60 IN TXT (((\n"
    } else {
        "i 60 IN TXT \"included\"\n"
    }
}

fn zone_text(name: &str, version: u32, kind: FileKind) -> String {
    match kind {
        FileKind::Valid => format!("$ORIGIN {n}\n$TTL 60\n@ IN SOA ns hm {v} 3600 600 86400 60\n@ NS ns\nns A 192.0.2.1\nv TXT \"v{v}\"\n", n = name, v = version),
        // no apex NS: a semantic (validation) error
        FileKind::Semantic => format!("$ORIGIN {n}\n$TTL 60\n@ IN SOA ns hm {v} 3600 600 86400 60\nns A 192.0.2.1\nv TXT \"v{v}\"\n", n = name, v = version),
        FileKind::ValidWarn => format!("$ORIGIN {n}\n$TTL 60\n@ IN SOA ns hm {v} 3600 600 86400 60\n@ NS ns\n@ MX 10 nomx\nnomx TXT \"no address here\"\nns A 192.0.2.1\nv TXT \"v{v}\"\n", n = name, v = version),
        FileKind::SemanticWarn => format!("$ORIGIN {n}\n$TTL 60\n@ IN SOA ns hm {v} 3600 600 86400 60\n@ MX 10 nomx\nnomx TXT \"no address here\"\nns A 192.0.2.1\nv TXT \"v{v}\"\n", n = name, v = version),
        FileKind::Syntax => format!("$ORIGIN {n}\n$TTL 60\n@ IN SOA ns hm {v} 3600 600 86400 60\n@ NS ns (((\n", n = name, v = version),
        FileKind::Missing => String::new(),
    }
}

fn file_name(zone: &str) -> String {
    format!("{}zone", if zone == "." { "root." } else { zone })
}

fn path_name(zone: &str, alt: bool) -> String {
    if alt {
        format!("alt/{}", file_name(zone))
    } else {
        file_name(zone)
    }
}

struct Daemon {
    child: Child,
    addr: SocketAddr,
    dir: PathBuf,
    sock: UdpSocket,
    next_id: u16,
}

/// A port below the ephemeral range, from a slot owned by this shard
/// (parallel shards start daemons at the same time; a port found free by
/// bind-and-release could be taken by a sibling before our daemon binds).
fn free_port(shard: u64, case: u64) -> Option<u16> {
    let slot = 20000 + (shard % 16) * 700;
    let pid_off = (std::process::id() as u64 % 7) * 100;
    for attempt in 0..40u64 {
        let port = (slot + (pid_off + case * 3 + attempt) % 700) as u16;
        if let Ok(_l) = TcpListener::bind((Ipv4Addr::LOCALHOST, port)) {
            if UdpSocket::bind((Ipv4Addr::LOCALHOST, port)).is_ok() {
                return Some(port);
            }
        }
    }
    None
}

/// Removes a zone file; for a path that is a symbolic link the target goes and the link stays.
fn remove_zone_file(path: &Path) {
    match std::fs::read_link(path) {
        Ok(target) => {
            let _ = std::fs::remove_file(path.parent().unwrap_or(Path::new(".")).join(target));
        }
        Err(_) => {
            let _ = std::fs::remove_file(path);
        }
    }
}

fn write_with_mtime(path: &Path, text: &str, mtime: SystemTime) -> std::io::Result<()> {
    let mut f = std::fs::File::create(path)?;
    f.write_all(text.as_bytes())?;
    f.set_modified(mtime)?;
    Ok(())
}

impl Daemon {
    /// Sends one query, returns the decoded response (None on timeout).
    fn query(&mut self, name: &str, qtype: u16) -> Option<Msg> {
        self.next_id = self.next_id.wrapping_add(1);
        let mut spec = MsgSpec { id: self.next_id, ..Default::default() };
        spec.questions.push((Some(NameEnc::Plain(RName::simple(name))), qtype, C_IN));
        let (req, _) = encode(&spec);
        for _ in 0..3 {
            let _ = self.sock.send_to(&req, self.addr);
            let mut buf = [0u8; 4096];
            let deadline = Instant::now() + Duration::from_millis(400);
            while Instant::now() < deadline {
                match self.sock.recv_from(&mut buf) {
                    Ok((len, from)) if from == self.addr && len >= 2 && buf[0..2] == req[0..2] => {
                        return m02(&buf[..len]).ok();
                    }
                    Ok(_) => continue,
                    Err(_) => break,
                }
            }
        }
        None
    }

    fn soa_serial(m: &Msg, section: Section) -> Option<(RName, u32)> {
        m.section(section).find(|r| r.rtype == T_SOA).and_then(|r| {
            let len = r.rdata.len();
            if len >= 20 {
                Some((r.owner.name.clone(), u32::from_be_bytes([r.rdata[len - 20], r.rdata[len - 19], r.rdata[len - 18], r.rdata[len - 17]])))
            } else {
                None
            }
        })
    }

    fn sighup(&self) {
        unsafe {
            libc::kill(self.child.id() as i32, libc::SIGHUP);
        }
    }

    fn stop(mut self) -> (Option<i32>, String) {
        unsafe {
            libc::kill(self.child.id() as i32, libc::SIGTERM);
        }
        let deadline = Instant::now() + Duration::from_secs(20);
        let mut status = None;
        while Instant::now() < deadline {
            match self.child.try_wait() {
                Ok(Some(s)) => {
                    status = s.code();
                    break;
                }
                Ok(None) => std::thread::sleep(Duration::from_millis(20)),
                Err(_) => break,
            }
        }
        if status.is_none() {
            let _ = self.child.kill();
            let _ = self.child.wait();
        }
        let log = std::fs::read_to_string(self.dir.join("daemon.log")).unwrap_or_default();
        (status, log)
    }
}

struct History {
    files: BTreeMap<String, ZoneFile>,
    configured: Vec<String>,
    states: BTreeMap<String, State>,
    clock: u64,
}

impl History {
    /// Applies the reference state machine for a (re)load.
    fn apply_load(&mut self) {
        let mut next: BTreeMap<String, State> = BTreeMap::new();
        for z in UNIVERSE.iter() {
            let prev = *self.states.get(*z).unwrap_or(&State::Absent);
            let configured = self.configured.iter().any(|c| c == z);
            let st = if !configured {
                State::Absent
            } else {
                let f = self.files.get_mut(*z).unwrap();
                let failed_state = if prev == State::Absent { State::FailedNeverLoaded } else { prev };
                // a file is loaded when it changed since the last SUCCESSFUL load (a failed
                // attempt is repeated at every reload until it succeeds)
                match f.kind {
                    FileKind::Missing => failed_state,
                    _ if !f.touched && matches!(prev, State::Serving(_)) => prev,
                    FileKind::Valid | FileKind::ValidWarn if !f.inc_broken => {
                        f.touched = false;
                        State::Serving(f.version)
                    }
                    _ => failed_state,
                }
            };
            next.insert(z.to_string(), st);
        }
        self.states = next;
    }

    fn config_text(&self, port: u16, sentinel: &str) -> String {
        let mut s = format!("bind = \"127.0.0.1:{}\"\n\n", port);
        s.push_str(&format!("[[zones]]\nname = \"{}\"\npath = \"{}\"\n\n", sentinel, file_name(sentinel)));
        for z in &self.configured {
            s.push_str(&format!("[[zones]]\nname = \"{}\"\npath = \"{}\"\n\n", z, path_name(z, self.files[z].alt)));
        }
        s
    }
}

fn describe(h: &History) -> Json {
    Json::Arr(UNIVERSE.iter().map(|z| Json::s(format!("{} configured={} file={:?} expected={:?}", z, h.configured.iter().any(|c| c == z), h.files.get(*z).map(|f| (f.version, f.kind, f.inc_broken, f.touched)), h.states.get(*z)))).collect())
}

pub fn run(ctx: &Ctx, rep: &mut Report) {
    let daemon_path = match std::env::var("QV_DAEMON") {
        Ok(p) => p,
        Err(_) => {
            rep.inconclusive("QV_DAEMON (path of the quandaryd binary) is not set");
            return;
        }
    };
    let valgrind = std::env::var("QV_DAEMON_VALGRIND").is_ok();
    let n = ctx.cases(96, 640);
    let base = PathBuf::from(&ctx.workdir).join("c31");
    for case in ctx.case_range(n) {
        rep.current_case = case;
        let mut rng = ctx.rng("c31", case);
        let dir = base.join(format!("d{}", case));
        let _ = std::fs::remove_dir_all(&dir);
        if std::fs::create_dir_all(dir.join("alt")).is_err() {
            rep.inconclusive("cannot create the daemon work directory");
            return;
        }
        let port = match free_port(ctx.shard, case) {
            Some(p) => p,
            None => {
                rep.inconclusive("no free loopback port");
                continue;
            }
        };
        // the sentinel zone's name is unique to this daemon, so an answer from any
        // other quandaryd (a sibling shard's) can never be mistaken for ours
        let sentinel_name = format!("sentinel-{}-{}-{}.", std::process::id(), ctx.shard, case);
        let sentinel: &str = &sentinel_name;
        let epoch = SystemTime::UNIX_EPOCH + Duration::from_secs(1_600_000_000);
        let mut h = History { files: BTreeMap::new(), configured: Vec::new(), states: BTreeMap::new(), clock: 0 };
        let mut trace: Vec<String> = Vec::new();
        // initial files and configuration
        let mut version = 1u32;
        let mut linked = 0u32;
        for z in UNIVERSE.iter() {
            let kind = *rng.pick(&[FileKind::Valid, FileKind::Valid, FileKind::Valid, FileKind::ValidWarn, FileKind::Syntax, FileKind::Semantic, FileKind::SemanticWarn, FileKind::Missing]);
            h.files.insert(z.to_string(), ZoneFile { version, kind, touched: true, alt: false, staged: None, inc_broken: false });
            // a third of the zones are configured through symbolic links (both of their paths):
            // the data and its modification time are those of the link's target
            if rng.chance(1, 3) {
                let _ = std::fs::create_dir_all(dir.join("real"));
                let _ = std::os::unix::fs::symlink(format!("real/{}", file_name(z)), dir.join(file_name(z)));
                let _ = std::os::unix::fs::symlink(format!("../real/alt-{}", file_name(z)), dir.join(path_name(z, true)));
                linked += 1;
            }
            if kind != FileKind::Missing {
                let _ = write_with_mtime(&dir.join(file_name(z)), &zone_text_inc(z, version, kind, &dir.join(format!("{}inc", z))), epoch);
            }
            let _ = std::fs::write(dir.join(format!("{}inc", z)), inc_text(false));
            if rng.chance(1, 2) {
                h.configured.push(z.to_string());
            }
            version += 1;
        }
        rng.shuffle(&mut h.configured);
        let _ = write_with_mtime(&dir.join(file_name(sentinel)), &zone_text(sentinel, 0, FileKind::Valid), epoch);
        let _ = std::fs::write(dir.join("config.toml"), h.config_text(port, sentinel));
        trace.push(format!("step 0: configured {:?}, files {:?}", h.configured, h.files.iter().map(|(k, f)| format!("{}:{:?}v{}", k, f.kind, f.version)).collect::<Vec<_>>()));
        h.apply_load();
        // start the daemon
        let log = match std::fs::File::create(dir.join("daemon.log")) {
            Ok(f) => f,
            Err(_) => {
                rep.inconclusive("cannot create the daemon log file");
                return;
            }
        };
        let mut cmd = if valgrind {
            let mut c = Command::new("valgrind");
            c.args(["--quiet", "--error-exitcode=97", "--leak-check=no", &daemon_path]);
            c
        } else {
            Command::new(&daemon_path)
        };
        cmd.args(["run", "--config"]).arg(dir.join("config.toml")).env("RUST_LOG", "warn").stdin(Stdio::null()).stdout(Stdio::null()).stderr(Stdio::from(log));
        let child = match cmd.spawn() {
            Ok(c) => c,
            Err(e) => {
                rep.inconclusive(format!("cannot start quandaryd: {}", e));
                return;
            }
        };
        let sock = match UdpSocket::bind((Ipv4Addr::LOCALHOST, 0)) {
            Ok(s) => s,
            Err(_) => {
                rep.inconclusive("cannot bind a client socket");
                return;
            }
        };
        let _ = sock.set_read_timeout(Some(Duration::from_millis(100)));
        let mut d = Daemon { child, addr: SocketAddr::new(IpAddr::V4(Ipv4Addr::LOCALHOST), port), dir: dir.clone(), sock, next_id: 0 };
        // readiness: the sentinel answers with serial 0
        let ready_deadline = Instant::now() + Duration::from_secs(if valgrind { 120 } else { 15 });
        let mut ready = false;
        while Instant::now() < ready_deadline {
            if let Some(m) = d.query(sentinel, T_SOA) {
                if Daemon::soa_serial(&m, Section::Answer).map(|s| s.1) == Some(0) {
                    ready = true;
                    break;
                }
            }
            if let Ok(Some(_)) = d.child.try_wait() {
                break;
            }
        }
        if !ready {
            let (_, log) = d.stop();
            rep.inconclusive(format!("quandaryd did not become ready: {}", log.lines().last().unwrap_or("")));
            continue;
        }
        let steps = if ctx.thorough { rng.range(10, 40) } else { rng.range(6, 14) };
        let mut failed = false;
        for step in 0..=steps as u32 {
            if step > 0 {
                // ---- edit files and configuration --------------------
                h.clock += 10;
                let mtime = epoch + Duration::from_secs(h.clock);
                let mut edits = Vec::new();
                for z in UNIVERSE.iter() {
                    match rng.below(10) {
                        0..=2 => {
                            // new version of the file (valid or broken or removed)
                            let kind = *rng.pick(&[FileKind::Valid, FileKind::Valid, FileKind::Valid, FileKind::ValidWarn, FileKind::Syntax, FileKind::Semantic, FileKind::SemanticWarn, FileKind::Missing]);
                            version += 1;
                            let f = h.files.get_mut(*z).unwrap();
                            f.version = version;
                            f.kind = kind;
                            f.touched = true;
                            let path = dir.join(path_name(z, f.alt));
                            if kind == FileKind::Missing {
                                remove_zone_file(&path);
                            } else {
                                let _ = write_with_mtime(&path, &zone_text_inc(z, version, kind, &dir.join(format!("{}inc", z))), mtime);
                            }
                            edits.push(format!("{}:=v{}{:?}", z, version, kind));
                        }
                        5 => {
                            // rewrite the current file (mtime T) and stage a newer version under the
                            // zone's other path with mtime T-5: older than what will be loaded now,
                            // yet newer than anything that path held before
                            version += 2;
                            let f = h.files.get_mut(*z).unwrap();
                            f.version = version - 1;
                            f.kind = FileKind::Valid;
                            f.touched = true;
                            let staged_kind = *rng.pick(&[FileKind::Valid, FileKind::Valid, FileKind::Syntax]);
                            f.staged = Some((version, staged_kind));
                            let _ = write_with_mtime(&dir.join(path_name(z, f.alt)), &zone_text_inc(z, version - 1, FileKind::Valid, &dir.join(format!("{}inc", z))), mtime);
                            let _ = write_with_mtime(&dir.join(path_name(z, !f.alt)), &zone_text_inc(z, version, staged_kind, &dir.join(format!("{}inc", z))), mtime - Duration::from_secs(5));
                            edits.push(format!("{}:=v{}Valid,staged:{}=v{}{:?}", z, version - 1, path_name(z, !f.alt), version, staged_kind));
                        }
                        6 => {
                            // the configuration switches to the staged path: a changed path must be
                            // loaded although its mtime is not newer than that of the loaded data
                            let f = h.files.get_mut(*z).unwrap();
                            if let Some((v, kind)) = f.staged.take() {
                                f.alt = !f.alt;
                                f.version = v;
                                f.kind = kind;
                                f.touched = true;
                                edits.push(format!("{}:path->{}(v{}{:?})", z, path_name(z, f.alt), v, kind));
                            }
                        }
                        7 => {
                            // break or repair the included file; the zone file itself is not touched
                            let f = h.files.get_mut(*z).unwrap();
                            f.inc_broken = !f.inc_broken;
                            let _ = std::fs::write(dir.join(format!("{}inc", z)), inc_text(f.inc_broken));
                            edits.push(format!("{}:include-{}", z, if f.inc_broken { "broken" } else { "repaired" }));
                        }
                        3 | 4 => {
                            let configured = h.configured.iter().any(|c| c == z);
                            if configured {
                                h.configured.retain(|c| c != z);
                                edits.push(format!("-{}", z));
                            } else {
                                let at = rng.below(h.configured.len() + 1);
                                h.configured.insert(at, z.to_string());
                                // a zone that was not configured is loaded from scratch
                                h.files.get_mut(*z).unwrap().touched = true;
                                edits.push(format!("+{}", z));
                            }
                        }
                        _ => {}
                    }
                }
                let _ = write_with_mtime(&dir.join(file_name(sentinel)), &zone_text(sentinel, step, FileKind::Valid), mtime);
                let _ = std::fs::write(dir.join("config.toml"), h.config_text(port, sentinel));
                trace.push(format!("step {}: {}; configured {:?}", step, edits.join(" "), h.configured));
                h.apply_load();
                d.sighup();
                // ---- wait until the reload is visible ----------------
                let mut seen = false;
                for _ in 0..(if valgrind { 600 } else { 120 }) {
                    if let Some(m) = d.query(sentinel, T_SOA) {
                        if Daemon::soa_serial(&m, Section::Answer).map(|s| s.1) == Some(step) {
                            seen = true;
                            break;
                        }
                    }
                    std::thread::sleep(Duration::from_millis(15));
                }
                if !seen {
                    rep.inconclusive("a reload did not become visible within the poll budget");
                    failed = true;
                    break;
                }
            }
            // ---- observe every zone -----------------------------------
            for z in UNIVERSE.iter() {
                rep.eval();
                let expected = *h.states.get(*z).unwrap();
                let m = match d.query(z, T_SOA) {
                    Some(m) => m,
                    None => {
                        rep.inconclusive("a query to quandaryd timed out");
                        failed = true;
                        break;
                    }
                };
                // what must be seen
                let zn = RName::simple(z);
                let verdict: Result<String, String> = match expected {
                    State::Serving(v) => match Daemon::soa_serial(&m, Section::Answer) {
                        Some((owner, serial)) if m.ext_rcode() == RC_NOERROR && m.header.aa() && owner.eq_ci(&zn) && serial == v => Ok(format!("serving")),
                        other => Err(format!("expected authoritative SOA with serial {} (the zone's latest good data), got RCODE {} AA {} answer SOA {:?}", v, m.ext_rcode(), m.header.aa(), other.map(|(o, s)| (o.to_text(), s)))),
                    },
                    State::FailedNeverLoaded => {
                        if m.ext_rcode() == RC_SERVFAIL {
                            Ok("never-loaded".into())
                        } else {
                            Err(format!("zone has never loaded: expected SERVFAIL, got RCODE {} (authority SOA {:?})", m.ext_rcode(), Daemon::soa_serial(&m, Section::Authority).map(|(o, s)| (o.to_text(), s))))
                        }
                    }
                    State::Absent => {
                        // answered by the longest configured ancestor, if any
                        let ancestor = UNIVERSE.iter().filter(|a| **a != *z && zn.is_at_or_below(&RName::simple(a)) && *h.states.get(**a).unwrap() != State::Absent).max_by_key(|a| a.len());
                        match ancestor.map(|a| (*a, *h.states.get(*a).unwrap())) {
                            None => {
                                if m.ext_rcode() == RC_REFUSED {
                                    Ok("absent-refused".into())
                                } else {
                                    Err(format!("zone is not configured: expected REFUSED, got RCODE {}", m.ext_rcode()))
                                }
                            }
                            Some((_, State::FailedNeverLoaded)) => {
                                if m.ext_rcode() == RC_SERVFAIL {
                                    Ok("absent-ancestor-failed".into())
                                } else {
                                    Err(format!("zone is not configured and its ancestor never loaded: expected SERVFAIL, got RCODE {}", m.ext_rcode()))
                                }
                            }
                            Some((a, State::Serving(va))) => match Daemon::soa_serial(&m, Section::Authority) {
                                Some((owner, serial)) if m.ext_rcode() == RC_NXDOMAIN && owner.eq_ci(&RName::simple(a)) && serial == va => Ok("absent-ancestor-serving".into()),
                                other => Err(format!("zone is not configured: expected NXDOMAIN from ancestor {} (serial {}), got RCODE {} authority SOA {:?} answer SOA {:?}", a, va, m.ext_rcode(), other.map(|(o, s)| (o.to_text(), s)), Daemon::soa_serial(&m, Section::Answer).map(|(o, s)| (o.to_text(), s)))),
                            },
                            Some((_, State::Absent)) => unreachable!(),
                        }
                    }
                };
                match verdict {
                    Ok(class) => {
                        rep.class(&format!("{}:{}:step{}", z, class, (step > 0) as u8));
                        rep.hist(&format!("observed:{}", class));
                    }
                    Err(detail) => {
                        let kind = match expected {
                            State::Serving(_) => "serving-zone-wrong",
                            State::FailedNeverLoaded => "never-loaded-zone-wrong",
                            State::Absent => "removed-zone-wrong",
                        };
                        rep.violation(
                            format!("c31:{}", kind),
                            format!("after step {} zone {}: {}", step, z, detail),
                            Json::obj(vec![("history", Json::Arr(trace.iter().map(|t| Json::s(t.clone())).collect())), ("zones", describe(&h)), ("zone", Json::s(*z))]),
                        );
                        failed = true;
                        break;
                    }
                }
            }
            if failed {
                break;
            }
        }
        let (status, log) = d.stop();
        if valgrind && status == Some(97) {
            rep.violation("c31:valgrind-report", format!("valgrind reported errors in quandaryd: {}", log.lines().take(30).collect::<Vec<_>>().join(" | ")), Json::Null);
        }
        if !failed {
            rep.hist("histories-completed");
            rep.hist_n("zones-configured-through-symlinks", linked as u64);
            if status != Some(0) && !valgrind {
                rep.hist("daemon-exit-nonzero");
            }
        }
        if case % 8 == 0 {
            rep.sample(|| Json::obj(vec![("history", Json::Arr(trace.iter().map(|t| Json::s(t.clone())).collect()))]));
        }
        let _ = std::fs::remove_dir_all(&dir);
    }
    let _ = std::fs::remove_dir_all(&base);
}
