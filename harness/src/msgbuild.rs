//! Hand-written DNS message encoder used to build requests and test
//! messages (never quandary's Writer), plus byte-level mutators.

use crate::names::RName;
use crate::rng::Rng;

#[derive(Clone, Debug)]
pub enum NameEnc {
    /// Written label by label, no pointers.
    Plain(RName),
    /// Compressed against names written earlier when possible.
    Compressed(RName),
    /// Arbitrary octets in the name field.
    Raw(Vec<u8>),
}

#[derive(Clone, Debug)]
pub enum RdPart {
    Bytes(Vec<u8>),
    Name(NameEnc),
}

#[derive(Clone, Debug)]
pub struct RecSpec {
    pub owner: NameEnc,
    pub rtype: u16,
    pub class: u16,
    pub ttl: u32,
    pub rdata: Vec<RdPart>,
    /// Overrides the RDLENGTH field (the RDATA octets are still written).
    pub rdlength_override: Option<u16>,
}

impl RecSpec {
    pub fn new(owner: NameEnc, rtype: u16, class: u16, ttl: u32, rdata: Vec<u8>) -> Self {
        RecSpec {
            owner,
            rtype,
            class,
            ttl,
            rdata: vec![RdPart::Bytes(rdata)],
            rdlength_override: None,
        }
    }
}

#[derive(Clone, Debug, Default)]
pub struct MsgSpec {
    pub id: u16,
    pub flags: u16,
    pub questions: Vec<(Option<NameEnc>, u16, u16)>,
    pub answers: Vec<RecSpec>,
    pub authorities: Vec<RecSpec>,
    pub additionals: Vec<RecSpec>,
    /// qd, an, ns, ar overrides
    pub counts: [Option<u16>; 4],
    pub trailing: Vec<u8>,
}

#[derive(Clone, Debug, Default)]
pub struct Layout {
    /// (start of record, offset of its fixed fields, end of record), in
    /// message order: answers, authorities, additionals.
    pub records: Vec<(usize, usize, usize)>,
    pub question_end: usize,
    /// offsets where pointers were emitted
    pub pointers: Vec<usize>,
}

pub struct Encoder {
    pub msg: Vec<u8>,
    targets: Vec<(usize, RName)>,
    pub layout: Layout,
}

impl Encoder {
    pub fn new() -> Self {
        Encoder {
            msg: Vec::new(),
            targets: Vec::new(),
            layout: Layout::default(),
        }
    }

    pub fn put_name(&mut self, enc: &NameEnc) {
        match enc {
            NameEnc::Raw(b) => self.msg.extend_from_slice(b),
            NameEnc::Plain(n) => {
                for skip in 0..n.0.len() {
                    if self.msg.len() < 0x3fff {
                        self.targets.push((self.msg.len(), n.parent(skip).unwrap()));
                    }
                    let l = &n.0[skip];
                    self.msg.push(l.len() as u8);
                    self.msg.extend_from_slice(l);
                }
                self.msg.push(0);
            }
            NameEnc::Compressed(n) => {
                for skip in 0..n.0.len() {
                    let suffix = n.parent(skip).unwrap();
                    if let Some((off, _)) = self.targets.iter().find(|(_, t)| *t == suffix) {
                        let off = *off;
                        self.layout.pointers.push(self.msg.len());
                        self.msg.push(0xc0 | (off >> 8) as u8);
                        self.msg.push(off as u8);
                        return;
                    }
                    if self.msg.len() < 0x3fff {
                        self.targets.push((self.msg.len(), suffix));
                    }
                    let l = &n.0[skip];
                    self.msg.push(l.len() as u8);
                    self.msg.extend_from_slice(l);
                }
                self.msg.push(0);
            }
        }
    }

    pub fn put_record(&mut self, r: &RecSpec) {
        let start = self.msg.len();
        self.put_name(&r.owner);
        let fixed = self.msg.len();
        self.msg.extend_from_slice(&r.rtype.to_be_bytes());
        self.msg.extend_from_slice(&r.class.to_be_bytes());
        self.msg.extend_from_slice(&r.ttl.to_be_bytes());
        let rdlen_at = self.msg.len();
        self.msg.extend_from_slice(&[0, 0]);
        let rd_start = self.msg.len();
        for part in &r.rdata {
            match part {
                RdPart::Bytes(b) => self.msg.extend_from_slice(b),
                RdPart::Name(n) => self.put_name(n),
            }
        }
        let len = r.rdlength_override.unwrap_or((self.msg.len() - rd_start) as u16);
        self.msg[rdlen_at..rdlen_at + 2].copy_from_slice(&len.to_be_bytes());
        self.layout.records.push((start, fixed, self.msg.len()));
    }
}

pub fn encode(spec: &MsgSpec) -> (Vec<u8>, Layout) {
    let mut e = Encoder::new();
    e.msg.extend_from_slice(&spec.id.to_be_bytes());
    e.msg.extend_from_slice(&spec.flags.to_be_bytes());
    let counts = [
        spec.counts[0].unwrap_or(spec.questions.len() as u16),
        spec.counts[1].unwrap_or(spec.answers.len() as u16),
        spec.counts[2].unwrap_or(spec.authorities.len() as u16),
        spec.counts[3].unwrap_or(spec.additionals.len() as u16),
    ];
    for c in counts {
        e.msg.extend_from_slice(&c.to_be_bytes());
    }
    for (name, qtype, qclass) in &spec.questions {
        if let Some(name) = name {
            e.put_name(name);
        }
        e.msg.extend_from_slice(&qtype.to_be_bytes());
        e.msg.extend_from_slice(&qclass.to_be_bytes());
    }
    e.layout.question_end = e.msg.len();
    for r in spec.answers.iter().chain(spec.authorities.iter()).chain(spec.additionals.iter()) {
        e.put_record(r);
    }
    e.msg.extend_from_slice(&spec.trailing);
    (e.msg, e.layout)
}

/// An OPT pseudo-record (RFC 6891 §6.1.2).
pub fn opt_record(payload: u16, ext_rcode: u8, version: u8, flags: u16, options: Vec<u8>) -> RecSpec {
    let ttl = ((ext_rcode as u32) << 24) | ((version as u32) << 16) | flags as u32;
    RecSpec::new(NameEnc::Plain(RName::root()), 41, payload, ttl, options)
}

// ---------------------------------------------------------------------
// byte-level mutators
// ---------------------------------------------------------------------

pub const SIGNIFICANT: [u8; 12] = [0, 1, 2, 3, 63, 64, 0x80, 0xbf, 0xc0, 0xc1, 0xff, b'a'];

/// Applies one random mutation; returns a short description.
pub fn mutate(rng: &mut Rng, msg: &mut Vec<u8>, layout: &Layout) -> String {
    match rng.below(12) {
        0 => {
            let cut = rng.below(msg.len() + 1);
            msg.truncate(cut);
            format!("truncate@{}", cut)
        }
        1 => {
            // truncate near a record boundary
            if let Some(&(s, f, e)) = layout.records.get(rng.below(layout.records.len().max(1))) {
                let at = *rng.pick(&[s, f, f + 2, f + 8, f + 9, f + 10, e.saturating_sub(1), e]);
                let at = at.min(msg.len());
                msg.truncate(at);
                format!("truncate-at-record@{}", at)
            } else {
                "none".into()
            }
        }
        2 => {
            let hi = if rng.chance(1, 8) { 300 } else { 6 };
            let n = rng.range(1, hi);
            msg.extend(rng.bytes(n));
            format!("append{}", n)
        }
        3 if msg.len() >= 12 => {
            // set one of the four counts
            let which = rng.below(4);
            let v: u16 = *rng.pick(&[0u16, 1, 2, 3, 255, 65535]);
            let cur = u16::from_be_bytes([msg[4 + 2 * which], msg[5 + 2 * which]]);
            let v = if rng.bool() { cur.wrapping_add(1) } else if rng.bool() { cur.wrapping_sub(1) } else { v };
            msg[4 + 2 * which..6 + 2 * which].copy_from_slice(&v.to_be_bytes());
            format!("count{}={}", which, v)
        }
        4 => {
            if let Some(&(_, f, _)) = layout.records.get(rng.below(layout.records.len().max(1))) {
                if f + 10 <= msg.len() {
                    let cur = u16::from_be_bytes([msg[f + 8], msg[f + 9]]);
                    let v = match rng.below(5) {
                        0 => 0,
                        1 => cur.wrapping_add(1),
                        2 => cur.wrapping_sub(1),
                        3 => 65535,
                        _ => rng.below(64) as u16,
                    };
                    msg[f + 8..f + 10].copy_from_slice(&v.to_be_bytes());
                    return format!("rdlength@{}={}", f + 8, v);
                }
            }
            "none".into()
        }
        5 => {
            if let Some(&p) = layout.pointers.get(rng.below(layout.pointers.len().max(1))) {
                if p + 2 <= msg.len() {
                    let target: usize = match rng.below(4) {
                        0 => p,
                        1 => p + 2,
                        2 => rng.below(msg.len().max(1)),
                        _ => rng.below(12),
                    };
                    msg[p] = 0xc0 | ((target >> 8) as u8 & 0x3f);
                    msg[p + 1] = target as u8;
                    return format!("pointer@{}->{}", p, target);
                }
            }
            "none".into()
        }
        6 | 7 if !msg.is_empty() => {
            let i = rng.below(msg.len());
            let v = *rng.pick(&SIGNIFICANT);
            msg[i] = v;
            format!("set[{}]={}", i, v)
        }
        8 if !msg.is_empty() => {
            let i = rng.below(msg.len());
            msg[i] ^= 1 << rng.below(8);
            format!("flip[{}]", i)
        }
        9 if !msg.is_empty() => {
            let i = rng.below(msg.len());
            msg.remove(i);
            format!("delete[{}]", i)
        }
        10 => {
            let i = rng.below(msg.len() + 1);
            msg.insert(i, *rng.pick(&SIGNIFICANT));
            format!("insert[{}]", i)
        }
        _ => "none".into(),
    }
}
