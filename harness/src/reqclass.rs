//! Oracle P: walks a *request* in message order the way an RFC-following
//! authoritative server must, and reports the first problem, whether an
//! OPT record was reached, and the EDNS / TSIG parameters.
//!
//! Records other than OPT/TSIG are only delimited (first chunk of the
//! owner name + RDLENGTH), because a server need not validate records
//! it ignores; the question, the OPT record and the TSIG record are
//! decoded completely.

use crate::names::RName;
use crate::rdataref as rr;
use crate::wire::*;

#[derive(Clone, Debug, PartialEq, Eq)]
pub enum Stop {
    /// No response at all (short, QR set, QDCOUNT > 1).
    NoResponse,
    /// Malformed: FORMERR, with a reason.
    FormErr(&'static str),
    /// EDNS version other than 0.
    BadVers,
    /// Structurally fine up to and including a TSIG record (if any) and
    /// the end of the message.
    Clean,
}

#[derive(Clone, Debug)]
pub struct QuestionInfo {
    pub name: RName,
    pub qtype: u16,
    pub qclass: u16,
    /// The question exactly as it appears in the request.
    pub raw: Vec<u8>,
    pub compressed: bool,
}

#[derive(Clone, Debug)]
pub struct OptInfo {
    pub payload: u16,
    pub ext_rcode: u8,
    pub version: u8,
    pub flags: u16,
}

#[derive(Clone, Debug)]
pub struct TsigInfo {
    pub key_name: RName,
    pub fields: TsigFields,
    /// Offset at which the TSIG record starts (= length of the message
    /// that is digested).
    pub rr_start: usize,
}

#[derive(Clone, Debug)]
pub struct Classified {
    pub header: Option<Header>,
    pub question: Option<QuestionInfo>,
    pub opt_reached: bool,
    pub opt: Option<OptInfo>,
    pub tsig: Option<TsigInfo>,
    pub stop: Stop,
    /// The TSIG record's TTL has the top bit set (RFC 2181 §8 reads this
    /// as zero; the statement leaves it open).
    pub tsig_ttl_ambiguous: bool,
    /// Offset at which the first problem was found (for evidence).
    pub problem_at: usize,
}

fn delimit(msg: &[u8], cur: usize) -> Option<(usize, usize)> {
    if cur > msg.len() {
        return None;
    }
    let owner_len = skip_name(&msg[cur..]).ok()?;
    let fixed = cur + owner_len;
    if fixed + 10 > msg.len() {
        return None;
    }
    let rdlength = u16::from_be_bytes([msg[fixed + 8], msg[fixed + 9]]) as usize;
    let end = fixed + 10 + rdlength;
    if end > msg.len() {
        return None;
    }
    Some((fixed, end))
}

pub fn classify(msg: &[u8]) -> Classified {
    let mut c = Classified {
        header: None,
        question: None,
        opt_reached: false,
        opt: None,
        tsig: None,
        stop: Stop::Clean,
        tsig_ttl_ambiguous: false,
        problem_at: 0,
    };
    let h = match parse_header(msg) {
        Some(h) => h,
        None => {
            c.stop = Stop::NoResponse;
            return c;
        }
    };
    c.header = Some(h.clone());
    if h.qr() || h.qdcount > 1 {
        c.stop = Stop::NoResponse;
        return c;
    }
    let mut cur = 12usize;
    let stop = |c: &mut Classified, s: Stop, at: usize| {
        c.stop = s;
        c.problem_at = at;
    };
    if h.qdcount == 1 {
        let parsed = decode_name(msg, cur).ok().and_then(|dn| {
            let after = cur + dn.field_len;
            if after + 4 <= msg.len() {
                Some((dn, after))
            } else {
                None
            }
        });
        match parsed {
            Some((dn, after)) => {
                c.question = Some(QuestionInfo {
                    compressed: !dn.pointers.is_empty(),
                    name: dn.name,
                    qtype: u16::from_be_bytes([msg[after], msg[after + 1]]),
                    qclass: u16::from_be_bytes([msg[after + 2], msg[after + 3]]),
                    raw: msg[cur..after + 4].to_vec(),
                });
                cur = after + 4;
            }
            None => {
                stop(&mut c, Stop::FormErr("question cannot be parsed"), cur);
                return c;
            }
        }
    }
    for _ in 0..(h.ancount as usize + h.nscount as usize) {
        match delimit(msg, cur) {
            None => {
                stop(&mut c, Stop::FormErr("answer/authority record cannot be delimited"), cur);
                return c;
            }
            Some((fixed, end)) => {
                let rtype = u16::from_be_bytes([msg[fixed], msg[fixed + 1]]);
                if rtype == T_OPT || rtype == T_TSIG {
                    stop(&mut c, Stop::FormErr("OPT/TSIG outside the additional section"), cur);
                    return c;
                }
                cur = end;
            }
        }
    }
    let arcount = h.arcount as usize;
    for index in 0..arcount {
        let (fixed, end) = match delimit(msg, cur) {
            None => {
                stop(&mut c, Stop::FormErr("additional record cannot be delimited"), cur);
                return c;
            }
            Some(x) => x,
        };
        let rtype = u16::from_be_bytes([msg[fixed], msg[fixed + 1]]);
        let class = u16::from_be_bytes([msg[fixed + 2], msg[fixed + 3]]);
        let ttl = u32::from_be_bytes([msg[fixed + 4], msg[fixed + 5], msg[fixed + 6], msg[fixed + 7]]);
        let rdlength = u16::from_be_bytes([msg[fixed + 8], msg[fixed + 9]]) as usize;
        if rtype == T_OPT {
            if c.opt_reached {
                stop(&mut c, Stop::FormErr("more than one OPT"), cur);
                return c;
            }
            c.opt_reached = true;
            // An OPT record was reached: from here on the response is an
            // EDNS response (RFC 6891 §7), whatever else is wrong.
            let owner = decode_name(msg, cur).ok();
            let rdata_ok = rr::valid(class, T_OPT, &msg[fixed + 10..end]);
            let owner = match (owner, rdata_ok) {
                (Some(o), true) => o,
                _ => {
                    stop(&mut c, Stop::FormErr("OPT record cannot be parsed"), cur);
                    return c;
                }
            };
            c.opt = Some(OptInfo {
                payload: class,
                ext_rcode: (ttl >> 24) as u8,
                version: (ttl >> 16) as u8,
                flags: ttl as u16,
            });
            if !owner.name.0.is_empty() {
                stop(&mut c, Stop::FormErr("OPT owner is not the root"), cur);
                return c;
            }
            if (ttl >> 16) as u8 != 0 {
                stop(&mut c, Stop::BadVers, cur);
                return c;
            }
        } else if rtype == T_TSIG {
            if index != arcount - 1 {
                stop(&mut c, Stop::FormErr("TSIG is not the last record"), cur);
                return c;
            }
            let owner = decode_name(msg, cur).ok();
            let fields = parse_tsig_rdata(&msg[fixed + 10..fixed + 10 + rdlength]);
            let (owner, fields) = match (owner, fields) {
                (Some(o), Some(f)) => (o, f),
                _ => {
                    stop(&mut c, Stop::FormErr("TSIG record cannot be parsed"), cur);
                    return c;
                }
            };
            if class != C_ANY {
                stop(&mut c, Stop::FormErr("TSIG class is not ANY"), cur);
                return c;
            }
            if ttl != 0 {
                if ttl > 0x7fff_ffff {
                    c.tsig_ttl_ambiguous = true;
                } else {
                    stop(&mut c, Stop::FormErr("TSIG TTL is not zero"), cur);
                    return c;
                }
            }
            c.tsig = Some(TsigInfo {
                key_name: owner.name,
                fields,
                rr_start: cur,
            });
        }
        cur = end;
    }
    if cur < msg.len() {
        stop(&mut c, Stop::FormErr("octets remain after the last counted record"), cur);
        return c;
    }
    c
}
