//! Deterministic PRNG owned by the harness (xoshiro256** seeded through
//! SplitMix64). Every case gets its own generator derived from
//! (seed, property, shard, case index), so a single case can be replayed
//! without re-running the cases before it.

#[derive(Clone, Debug)]
pub struct Rng {
    s: [u64; 4],
}

fn splitmix(x: &mut u64) -> u64 {
    *x = x.wrapping_add(0x9e3779b97f4a7c15);
    let mut z = *x;
    z = (z ^ (z >> 30)).wrapping_mul(0xbf58476d1ce4e5b9);
    z = (z ^ (z >> 27)).wrapping_mul(0x94d049bb133111eb);
    z ^ (z >> 31)
}

pub fn fnv1a(data: &[u8]) -> u64 {
    let mut h: u64 = 0xcbf29ce484222325;
    for b in data {
        h ^= *b as u64;
        h = h.wrapping_mul(0x100000001b3);
    }
    h
}

impl Rng {
    pub fn new(seed: u64) -> Self {
        let mut x = seed;
        let s = [
            splitmix(&mut x),
            splitmix(&mut x),
            splitmix(&mut x),
            splitmix(&mut x),
        ];
        Rng { s }
    }

    /// Generator for one case.
    pub fn for_case(seed: u64, tag: &str, shard: u64, case: u64) -> Self {
        let mut x = seed ^ fnv1a(tag.as_bytes()).rotate_left(17);
        let a = splitmix(&mut x);
        let mut y = a ^ shard.wrapping_mul(0xa24baed4963ee407);
        let b = splitmix(&mut y);
        let mut z = b ^ case.wrapping_mul(0x9fb21c651e98df25);
        Rng::new(splitmix(&mut z))
    }

    pub fn next_u64(&mut self) -> u64 {
        let result = self.s[1].wrapping_mul(5).rotate_left(7).wrapping_mul(9);
        let t = self.s[1] << 17;
        self.s[2] ^= self.s[0];
        self.s[3] ^= self.s[1];
        self.s[1] ^= self.s[2];
        self.s[0] ^= self.s[3];
        self.s[2] ^= t;
        self.s[3] = self.s[3].rotate_left(45);
        result
    }

    pub fn u32(&mut self) -> u32 {
        (self.next_u64() >> 32) as u32
    }
    pub fn u16(&mut self) -> u16 {
        (self.next_u64() >> 48) as u16
    }
    pub fn u8(&mut self) -> u8 {
        (self.next_u64() >> 56) as u8
    }

    /// Uniform in 0..n (n > 0).
    pub fn below(&mut self, n: usize) -> usize {
        debug_assert!(n > 0);
        ((self.next_u64() >> 11) % (n as u64)) as usize
    }

    /// Uniform in lo..=hi.
    pub fn range(&mut self, lo: usize, hi: usize) -> usize {
        lo + self.below(hi - lo + 1)
    }

    pub fn bool(&mut self) -> bool {
        self.next_u64() >> 63 == 1
    }

    /// True with probability num/den.
    pub fn chance(&mut self, num: usize, den: usize) -> bool {
        self.below(den) < num
    }

    pub fn pick<'a, T>(&mut self, items: &'a [T]) -> &'a T {
        &items[self.below(items.len())]
    }

    pub fn bytes(&mut self, n: usize) -> Vec<u8> {
        (0..n).map(|_| self.u8()).collect()
    }

    /// Random octets, length uniform in 0..max.
    pub fn bytes_below(&mut self, max: usize) -> Vec<u8> {
        let n = self.below(max);
        self.bytes(n)
    }

    pub fn shuffle<T>(&mut self, items: &mut [T]) {
        for i in (1..items.len()).rev() {
            let j = self.below(i + 1);
            items.swap(i, j);
        }
    }
}
