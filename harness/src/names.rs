//! Oracle N: an independent model of domain names. A name is a list of
//! labels (byte strings), most specific first, *without* the root label.
//! Everything here is written from RFC 1035 §3.1/§5.1, RFC 4343 and
//! RFC 4034 §6.1, not by calling quandary.

use std::cmp::Ordering;

#[derive(Clone, Debug, PartialEq, Eq, Hash, PartialOrd, Ord)]
pub struct RName(pub Vec<Vec<u8>>);

pub fn lower_bytes(b: &[u8]) -> Vec<u8> {
    b.iter().map(|c| c.to_ascii_lowercase()).collect()
}

impl RName {
    pub fn root() -> RName {
        RName(Vec::new())
    }

    pub fn from_strs(labels: &[&str]) -> RName {
        RName(labels.iter().map(|l| l.as_bytes().to_vec()).collect())
    }

    /// Parses simple dotted text with no escapes (harness-internal use).
    pub fn simple(text: &str) -> RName {
        if text == "." {
            return RName::root();
        }
        let t = text.strip_suffix('.').unwrap_or(text);
        RName(t.split('.').map(|l| l.as_bytes().to_vec()).collect())
    }

    /// Number of labels including the root label.
    pub fn n_labels(&self) -> usize {
        self.0.len() + 1
    }

    pub fn wire_len(&self) -> usize {
        self.0.iter().map(|l| l.len() + 1).sum::<usize>() + 1
    }

    /// Valid per RFC 1035: labels 1..=63 octets, total <= 255.
    pub fn is_valid(&self) -> bool {
        self.0.iter().all(|l| !l.is_empty() && l.len() <= 63) && self.wire_len() <= 255
    }

    pub fn wire(&self) -> Vec<u8> {
        let mut out = Vec::with_capacity(self.wire_len());
        for l in &self.0 {
            out.push(l.len() as u8);
            out.extend_from_slice(l);
        }
        out.push(0);
        out
    }

    /// Parses an uncompressed wire name from the start of `octets`,
    /// returning the name and its length.
    pub fn from_wire_uncompressed(octets: &[u8]) -> Option<(RName, usize)> {
        let mut labels = Vec::new();
        let mut i = 0;
        loop {
            let len = *octets.get(i)? as usize;
            if len == 0 {
                i += 1;
                break;
            }
            if len > 63 {
                return None;
            }
            let label = octets.get(i + 1..i + 1 + len)?;
            labels.push(label.to_vec());
            i += 1 + len;
            if i + 1 > 255 {
                return None;
            }
        }
        if i > 255 {
            return None;
        }
        Some((RName(labels), i))
    }

    pub fn from_wire_all(octets: &[u8]) -> Option<RName> {
        match RName::from_wire_uncompressed(octets) {
            Some((n, len)) if len == octets.len() => Some(n),
            _ => None,
        }
    }

    pub fn lower(&self) -> RName {
        RName(self.0.iter().map(|l| lower_bytes(l)).collect())
    }

    pub fn eq_ci(&self, other: &RName) -> bool {
        self.0.len() == other.0.len()
            && self
                .0
                .iter()
                .zip(other.0.iter())
                .all(|(a, b)| a.eq_ignore_ascii_case(b))
    }

    /// self is equal to or a subdomain of `other` (case-insensitive).
    pub fn is_at_or_below(&self, other: &RName) -> bool {
        if self.0.len() < other.0.len() {
            return false;
        }
        let skip = self.0.len() - other.0.len();
        self.0[skip..]
            .iter()
            .zip(other.0.iter())
            .all(|(a, b)| a.eq_ignore_ascii_case(b))
    }

    /// The name with the `n` most specific labels removed.
    pub fn parent(&self, n: usize) -> Option<RName> {
        if n <= self.0.len() {
            Some(RName(self.0[n..].to_vec()))
        } else {
            None
        }
    }

    pub fn child(&self, label: &[u8]) -> RName {
        let mut v = Vec::with_capacity(self.0.len() + 1);
        v.push(label.to_vec());
        v.extend(self.0.iter().cloned());
        RName(v)
    }

    pub fn concat(&self, suffix: &RName) -> RName {
        let mut v = self.0.clone();
        v.extend(suffix.0.iter().cloned());
        RName(v)
    }

    pub fn is_wildcard(&self) -> bool {
        self.0.first().map_or(false, |l| l.as_slice() == b"*")
    }

    /// RFC 4034 §6.1 canonical ordering.
    pub fn cmp_canonical(&self, other: &RName) -> Ordering {
        let mut a = self.0.iter().rev();
        let mut b = other.0.iter().rev();
        loop {
            match (a.next(), b.next()) {
                (None, None) => return Ordering::Equal,
                (None, Some(_)) => return Ordering::Less,
                (Some(_), None) => return Ordering::Greater,
                (Some(x), Some(y)) => {
                    let lx = lower_bytes(x);
                    let ly = lower_bytes(y);
                    match lx.cmp(&ly) {
                        Ordering::Equal => continue,
                        o => return o,
                    }
                }
            }
        }
    }

    /// Master-file text per RFC 1035 §5.1: labels separated by dots,
    /// absolute (trailing dot), with '.', '\\' and anything outside
    /// printable ASCII escaped. (Harness-side rendering, used to *feed*
    /// parsers; quandary's own rendering is checked by round trip.)
    pub fn to_text(&self) -> String {
        if self.0.is_empty() {
            return ".".to_string();
        }
        let mut s = String::new();
        for l in &self.0 {
            for &c in l {
                match c {
                    b'.' | b'\\' | b'"' | b';' | b'(' | b')' | b'@' | b'$' => {
                        s.push('\\');
                        s.push(c as char);
                    }
                    0x21..=0x7e => s.push(c as char),
                    _ => s.push_str(&format!("\\{:03}", c)),
                }
            }
            s.push('.');
        }
        s
    }

    pub fn debug(&self) -> String {
        self.to_text()
    }
}
