//! Panic monitor: a process-wide panic hook that records where each
//! panic happened (per thread) instead of printing it, plus a
//! `catch` wrapper that turns an unwinding panic into a value.

use std::cell::RefCell;
use std::panic::{self, AssertUnwindSafe};
use std::sync::atomic::{AtomicBool, AtomicU64, Ordering};

#[derive(Clone, Debug)]
pub struct PanicInfo {
    pub location: String, // file:line
    pub file: String,
    pub message: String,
}

impl PanicInfo {
    /// A signature that is stable across inputs: file, plus the message
    /// with digits collapsed.
    pub fn signature(&self) -> String {
        let mut msg = String::new();
        let mut last_digit = false;
        for c in self.message.chars() {
            if c.is_ascii_digit() {
                if !last_digit {
                    msg.push('N');
                }
                last_digit = true;
            } else {
                msg.push(c);
                last_digit = false;
            }
        }
        let file = self.file.rsplit("/src/").next().unwrap_or(&self.file).to_string();
        format!("panic:{}:{}", file, msg)
    }
}

thread_local! {
    static LAST: RefCell<Option<PanicInfo>> = RefCell::new(None);
}

static QUIET: AtomicBool = AtomicBool::new(true);
pub static TOTAL_PANICS: AtomicU64 = AtomicU64::new(0);

pub fn install() {
    panic::set_hook(Box::new(|info| {
        TOTAL_PANICS.fetch_add(1, Ordering::Relaxed);
        let (file, line) = info
            .location()
            .map(|l| (l.file().to_string(), l.line()))
            .unwrap_or(("?".to_string(), 0));
        let message = if let Some(s) = info.payload().downcast_ref::<&str>() {
            s.to_string()
        } else if let Some(s) = info.payload().downcast_ref::<String>() {
            s.clone()
        } else {
            "<non-string panic payload>".to_string()
        };
        if !QUIET.load(Ordering::Relaxed) {
            eprintln!("panic at {}:{}: {}", file, line, message);
        }
        let pi = PanicInfo {
            location: format!("{}:{}", file, line),
            file,
            message,
        };
        LAST.with(|l| *l.borrow_mut() = Some(pi));
    }));
}

pub fn set_quiet(q: bool) {
    QUIET.store(q, Ordering::Relaxed);
}

pub fn take_last() -> Option<PanicInfo> {
    LAST.with(|l| l.borrow_mut().take())
}

/// Runs `f`, converting an unwinding panic into `Err`.
pub fn catch<T>(f: impl FnOnce() -> T) -> Result<T, PanicInfo> {
    LAST.with(|l| *l.borrow_mut() = None);
    match panic::catch_unwind(AssertUnwindSafe(f)) {
        Ok(v) => Ok(v),
        Err(_) => Err(take_last().unwrap_or(PanicInfo {
            location: "?".into(),
            file: "?".into(),
            message: "panic (no info)".into(),
        })),
    }
}
