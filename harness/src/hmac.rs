//! Oracle H: SHA-1, SHA-256, HMAC (RFC 2104) and the RFC 8945 §4.3
//! digest composition, implemented in the harness and self-tested
//! against RFC 2202 / RFC 4231 vectors at start-up.

use crate::names::RName;

pub fn sha1(data: &[u8]) -> Vec<u8> {
    let mut h: [u32; 5] = [0x67452301, 0xEFCDAB89, 0x98BADCFE, 0x10325476, 0xC3D2E1F0];
    let mut msg = data.to_vec();
    let bitlen = (data.len() as u64) * 8;
    msg.push(0x80);
    while msg.len() % 64 != 56 {
        msg.push(0);
    }
    msg.extend_from_slice(&bitlen.to_be_bytes());
    for chunk in msg.chunks(64) {
        let mut w = [0u32; 80];
        for i in 0..16 {
            w[i] = u32::from_be_bytes([chunk[4 * i], chunk[4 * i + 1], chunk[4 * i + 2], chunk[4 * i + 3]]);
        }
        for i in 16..80 {
            w[i] = (w[i - 3] ^ w[i - 8] ^ w[i - 14] ^ w[i - 16]).rotate_left(1);
        }
        let (mut a, mut b, mut c, mut d, mut e) = (h[0], h[1], h[2], h[3], h[4]);
        for (i, wi) in w.iter().enumerate() {
            let (f, k) = match i {
                0..=19 => ((b & c) | (!b & d), 0x5A827999u32),
                20..=39 => (b ^ c ^ d, 0x6ED9EBA1),
                40..=59 => ((b & c) | (b & d) | (c & d), 0x8F1BBCDC),
                _ => (b ^ c ^ d, 0xCA62C1D6),
            };
            let temp = a.rotate_left(5).wrapping_add(f).wrapping_add(e).wrapping_add(k).wrapping_add(*wi);
            e = d;
            d = c;
            c = b.rotate_left(30);
            b = a;
            a = temp;
        }
        h[0] = h[0].wrapping_add(a);
        h[1] = h[1].wrapping_add(b);
        h[2] = h[2].wrapping_add(c);
        h[3] = h[3].wrapping_add(d);
        h[4] = h[4].wrapping_add(e);
    }
    h.iter().flat_map(|x| x.to_be_bytes()).collect()
}

const K256: [u32; 64] = [
    0x428a2f98, 0x71374491, 0xb5c0fbcf, 0xe9b5dba5, 0x3956c25b, 0x59f111f1, 0x923f82a4, 0xab1c5ed5, 0xd807aa98, 0x12835b01, 0x243185be, 0x550c7dc3, 0x72be5d74, 0x80deb1fe,
    0x9bdc06a7, 0xc19bf174, 0xe49b69c1, 0xefbe4786, 0x0fc19dc6, 0x240ca1cc, 0x2de92c6f, 0x4a7484aa, 0x5cb0a9dc, 0x76f988da, 0x983e5152, 0xa831c66d, 0xb00327c8, 0xbf597fc7,
    0xc6e00bf3, 0xd5a79147, 0x06ca6351, 0x14292967, 0x27b70a85, 0x2e1b2138, 0x4d2c6dfc, 0x53380d13, 0x650a7354, 0x766a0abb, 0x81c2c92e, 0x92722c85, 0xa2bfe8a1, 0xa81a664b,
    0xc24b8b70, 0xc76c51a3, 0xd192e819, 0xd6990624, 0xf40e3585, 0x106aa070, 0x19a4c116, 0x1e376c08, 0x2748774c, 0x34b0bcb5, 0x391c0cb3, 0x4ed8aa4a, 0x5b9cca4f, 0x682e6ff3,
    0x748f82ee, 0x78a5636f, 0x84c87814, 0x8cc70208, 0x90befffa, 0xa4506ceb, 0xbef9a3f7, 0xc67178f2,
];

pub fn sha256(data: &[u8]) -> Vec<u8> {
    let mut h: [u32; 8] = [0x6a09e667, 0xbb67ae85, 0x3c6ef372, 0xa54ff53a, 0x510e527f, 0x9b05688c, 0x1f83d9ab, 0x5be0cd19];
    let mut msg = data.to_vec();
    let bitlen = (data.len() as u64) * 8;
    msg.push(0x80);
    while msg.len() % 64 != 56 {
        msg.push(0);
    }
    msg.extend_from_slice(&bitlen.to_be_bytes());
    for chunk in msg.chunks(64) {
        let mut w = [0u32; 64];
        for i in 0..16 {
            w[i] = u32::from_be_bytes([chunk[4 * i], chunk[4 * i + 1], chunk[4 * i + 2], chunk[4 * i + 3]]);
        }
        for i in 16..64 {
            let s0 = w[i - 15].rotate_right(7) ^ w[i - 15].rotate_right(18) ^ (w[i - 15] >> 3);
            let s1 = w[i - 2].rotate_right(17) ^ w[i - 2].rotate_right(19) ^ (w[i - 2] >> 10);
            w[i] = w[i - 16].wrapping_add(s0).wrapping_add(w[i - 7]).wrapping_add(s1);
        }
        let mut v = h;
        for i in 0..64 {
            let s1 = v[4].rotate_right(6) ^ v[4].rotate_right(11) ^ v[4].rotate_right(25);
            let ch = (v[4] & v[5]) ^ (!v[4] & v[6]);
            let t1 = v[7].wrapping_add(s1).wrapping_add(ch).wrapping_add(K256[i]).wrapping_add(w[i]);
            let s0 = v[0].rotate_right(2) ^ v[0].rotate_right(13) ^ v[0].rotate_right(22);
            let maj = (v[0] & v[1]) ^ (v[0] & v[2]) ^ (v[1] & v[2]);
            let t2 = s0.wrapping_add(maj);
            v[7] = v[6];
            v[6] = v[5];
            v[5] = v[4];
            v[4] = v[3].wrapping_add(t1);
            v[3] = v[2];
            v[2] = v[1];
            v[1] = v[0];
            v[0] = t1.wrapping_add(t2);
        }
        for i in 0..8 {
            h[i] = h[i].wrapping_add(v[i]);
        }
    }
    h.iter().flat_map(|x| x.to_be_bytes()).collect()
}

#[derive(Clone, Copy, Debug, PartialEq, Eq)]
pub enum Alg {
    Sha1,
    Sha256,
}

impl Alg {
    pub fn name(self) -> RName {
        match self {
            Alg::Sha1 => RName::simple("hmac-sha1."),
            Alg::Sha256 => RName::simple("hmac-sha256."),
        }
    }
    pub fn output_len(self) -> usize {
        match self {
            Alg::Sha1 => 20,
            Alg::Sha256 => 32,
        }
    }
    pub fn from_name(n: &RName) -> Option<Alg> {
        if n.eq_ci(&Alg::Sha1.name()) {
            Some(Alg::Sha1)
        } else if n.eq_ci(&Alg::Sha256.name()) {
            Some(Alg::Sha256)
        } else {
            None
        }
    }
    fn hash(self, data: &[u8]) -> Vec<u8> {
        match self {
            Alg::Sha1 => sha1(data),
            Alg::Sha256 => sha256(data),
        }
    }
}

pub fn hmac(alg: Alg, key: &[u8], data: &[u8]) -> Vec<u8> {
    let mut k = if key.len() > 64 { alg.hash(key) } else { key.to_vec() };
    k.resize(64, 0);
    let mut inner: Vec<u8> = k.iter().map(|b| b ^ 0x36).collect();
    inner.extend_from_slice(data);
    let ih = alg.hash(&inner);
    let mut outer: Vec<u8> = k.iter().map(|b| b ^ 0x5c).collect();
    outer.extend_from_slice(&ih);
    alg.hash(&outer)
}

/// TSIG variables (RFC 8945 §4.3.3).
#[derive(Clone, Debug)]
pub struct TsigVars {
    pub key_name: RName,
    pub algorithm: RName,
    pub time_signed: u64,
    pub fudge: u16,
    pub error: u16,
    pub other: Vec<u8>,
}

pub fn time48(t: u64) -> [u8; 6] {
    let b = t.to_be_bytes();
    [b[2], b[3], b[4], b[5], b[6], b[7]]
}

#[derive(Clone, Copy, Debug, PartialEq, Eq)]
pub enum Kind {
    Request,
    Response,
    Subsequent,
}

/// The octets that are digested for a message (RFC 8945 §4.3):
/// [prior MAC length + prior MAC] ‖ message without the TSIG RR, with
/// the original ID and ARCOUNT decremented ‖ TSIG variables (or only
/// the timers for subsequent messages). `msg_without_tsig` is the
/// message up to the TSIG RR with the header as on the wire.
pub fn digest_input(kind: Kind, prior_mac: &[u8], msg_without_tsig: &[u8], original_id: u16, vars: &TsigVars) -> Vec<u8> {
    let mut d = Vec::new();
    if kind != Kind::Request {
        d.extend_from_slice(&(prior_mac.len() as u16).to_be_bytes());
        d.extend_from_slice(prior_mac);
    }
    let mut m = msg_without_tsig.to_vec();
    m[0..2].copy_from_slice(&original_id.to_be_bytes());
    let ar = u16::from_be_bytes([m[10], m[11]]).wrapping_sub(1);
    m[10..12].copy_from_slice(&ar.to_be_bytes());
    d.extend_from_slice(&m);
    if kind == Kind::Subsequent {
        d.extend_from_slice(&time48(vars.time_signed));
        d.extend_from_slice(&vars.fudge.to_be_bytes());
    } else {
        d.extend_from_slice(&vars.key_name.lower().wire());
        d.extend_from_slice(&[0x00, 0xff]); // CLASS ANY
        d.extend_from_slice(&[0, 0, 0, 0]); // TTL
        d.extend_from_slice(&vars.algorithm.lower().wire());
        d.extend_from_slice(&time48(vars.time_signed));
        d.extend_from_slice(&vars.fudge.to_be_bytes());
        d.extend_from_slice(&vars.error.to_be_bytes());
        d.extend_from_slice(&(vars.other.len() as u16).to_be_bytes());
        d.extend_from_slice(&vars.other);
    }
    d
}

pub fn tsig_mac(alg: Alg, key: &[u8], kind: Kind, prior_mac: &[u8], msg_without_tsig: &[u8], original_id: u16, vars: &TsigVars) -> Vec<u8> {
    hmac(alg, key, &digest_input(kind, prior_mac, msg_without_tsig, original_id, vars))
}

/// Serialises TSIG RDATA.
pub fn tsig_rdata(vars: &TsigVars, mac: &[u8], original_id: u16) -> Vec<u8> {
    let mut v = vars.algorithm.wire();
    v.extend_from_slice(&time48(vars.time_signed));
    v.extend_from_slice(&vars.fudge.to_be_bytes());
    v.extend_from_slice(&(mac.len() as u16).to_be_bytes());
    v.extend_from_slice(mac);
    v.extend_from_slice(&original_id.to_be_bytes());
    v.extend_from_slice(&vars.error.to_be_bytes());
    v.extend_from_slice(&(vars.other.len() as u16).to_be_bytes());
    v.extend_from_slice(&vars.other);
    v
}

fn unhex(s: &str) -> Vec<u8> {
    crate::report::unhex(s).unwrap()
}

/// Self-test against published vectors; returns an error description.
pub fn selftest() -> Result<(), String> {
    if crate::report::hex(&sha1(b"abc")) != "a9993e364706816aba3e25717850c26c9cd0d89d" {
        return Err("SHA-1 'abc'".into());
    }
    if crate::report::hex(&sha256(b"abc")) != "ba7816bf8f01cfea414140de5dae2223b00361a396177a9cb410ff61f20015ad" {
        return Err("SHA-256 'abc'".into());
    }
    let long = vec![b'a'; 1000];
    if crate::report::hex(&sha256(&long)) != "41edece42d63e8d9bf515a9ba6932e1c20cbc9f5a5d134645adb5db1b9737ea3" {
        return Err("SHA-256 1000 x 'a'".into());
    }
    // RFC 2202 test case 1 and 2 (HMAC-SHA1)
    if crate::report::hex(&hmac(Alg::Sha1, &[0x0b; 20], b"Hi There")) != "b617318655057264e28bc0b6fb378c8ef146be00" {
        return Err("RFC 2202 case 1".into());
    }
    if crate::report::hex(&hmac(Alg::Sha1, b"Jefe", b"what do ya want for nothing?")) != "effcdf6ae5eb2fa2d27416d5f184df9c259a7c79" {
        return Err("RFC 2202 case 2".into());
    }
    // RFC 2202 case 6: key longer than the block size
    if crate::report::hex(&hmac(Alg::Sha1, &[0xaa; 80], b"Test Using Larger Than Block-Size Key - Hash Key First")) != "aa4ae5e15272d00e95705637ce8a3b55ed402112" {
        return Err("RFC 2202 case 6".into());
    }
    // RFC 4231 test case 1, 2 and 6 (HMAC-SHA256)
    if crate::report::hex(&hmac(Alg::Sha256, &[0x0b; 20], b"Hi There")) != "b0344c61d8db38535ca8afceaf0bf12b881dc200c9833da726e9376c2e32cff7" {
        return Err("RFC 4231 case 1".into());
    }
    if crate::report::hex(&hmac(Alg::Sha256, b"Jefe", b"what do ya want for nothing?")) != "5bdcc146bf60754e6a042426089575c75a003f089d2739839dec58b964ec3843" {
        return Err("RFC 4231 case 2".into());
    }
    if crate::report::hex(&hmac(Alg::Sha256, &[0xaa; 131], b"Test Using Larger Than Block-Size Key - Hash Key First")) != "60e431591ee0b67f0d8a26aacbf5b77f8e0bc6213728c5140546040f0ee37f54" {
        return Err("RFC 4231 case 6".into());
    }
    let _ = unhex("00");
    Ok(())
}
