//! Oracle W: a strict, independent DNS message decoder written from
//! RFC 1035 §4.1, RFC 3597 §4, RFC 6891 and RFC 8945. It either decodes
//! a whole message (no octet left over) or fails with a reason, and it
//! returns the metadata the compression monitors need (where every
//! label starts, every pointer and its target, which field a name
//! belongs to).

use crate::names::RName;

pub const T_A: u16 = 1;
pub const T_NS: u16 = 2;
pub const T_MD: u16 = 3;
pub const T_MF: u16 = 4;
pub const T_CNAME: u16 = 5;
pub const T_SOA: u16 = 6;
pub const T_MB: u16 = 7;
pub const T_MG: u16 = 8;
pub const T_MR: u16 = 9;
pub const T_NULL: u16 = 10;
pub const T_WKS: u16 = 11;
pub const T_PTR: u16 = 12;
pub const T_HINFO: u16 = 13;
pub const T_MINFO: u16 = 14;
pub const T_MX: u16 = 15;
pub const T_TXT: u16 = 16;
pub const T_AAAA: u16 = 28;
pub const T_SRV: u16 = 33;
pub const T_OPT: u16 = 41;
pub const T_TSIG: u16 = 250;
pub const T_IXFR: u16 = 251;
pub const T_AXFR: u16 = 252;
pub const T_MAILB: u16 = 253;
pub const T_MAILA: u16 = 254;
pub const T_ANY: u16 = 255;

pub const C_IN: u16 = 1;
pub const C_CH: u16 = 3;
pub const C_HS: u16 = 4;
pub const C_NONE: u16 = 254;
pub const C_ANY: u16 = 255;

pub const RC_NOERROR: u16 = 0;
pub const RC_FORMERR: u16 = 1;
pub const RC_SERVFAIL: u16 = 2;
pub const RC_NXDOMAIN: u16 = 3;
pub const RC_NOTIMP: u16 = 4;
pub const RC_REFUSED: u16 = 5;
pub const RC_NOTAUTH: u16 = 9;
pub const RC_BADVERS: u16 = 16; // also BADSIG in the TSIG error field
pub const RC_BADSIG: u16 = 16;
pub const RC_BADKEY: u16 = 17;
pub const RC_BADTIME: u16 = 18;

#[derive(Clone, Debug)]
pub struct DecName {
    pub name: RName,
    /// Offset of the first octet of the name field.
    pub start: usize,
    /// Length of the contiguous field at `start` (up to and including
    /// the terminating zero octet or the first pointer).
    pub field_len: usize,
    /// (position of pointer, target)
    pub pointers: Vec<(usize, usize)>,
    /// Message offsets of the length octet of every real label that
    /// makes up the name, in order, including the terminal zero octet.
    pub label_offsets: Vec<usize>,
}

#[derive(Clone, Debug, PartialEq, Eq)]
pub enum NameErr {
    StartOutOfRange,
    Truncated,
    LabelTooLong,
    NameTooLong,
    BadPointer,
}

/// RFC 1035 §4.1.4 name decoding. A pointer must refer to a *prior*
/// occurrence: its target must be lower than the start of the run of
/// labels ("chunk") that contains the pointer.
pub fn decode_name(msg: &[u8], start: usize) -> Result<DecName, NameErr> {
    if start >= msg.len() {
        return Err(NameErr::StartOutOfRange);
    }
    let mut labels: Vec<Vec<u8>> = Vec::new();
    let mut pointers = Vec::new();
    let mut label_offsets = Vec::new();
    let mut wire_len = 0usize; // uncompressed length so far (without the final zero)
    let mut pos = start;
    let mut chunk_start = start;
    let mut field_len: Option<usize> = None;
    loop {
        let b = *msg.get(pos).ok_or(NameErr::Truncated)?;
        if b & 0xc0 == 0xc0 {
            let b2 = *msg.get(pos + 1).ok_or(NameErr::Truncated)?;
            let target = (((b & 0x3f) as usize) << 8) | b2 as usize;
            if target >= chunk_start {
                return Err(NameErr::BadPointer);
            }
            pointers.push((pos, target));
            if field_len.is_none() {
                field_len = Some(pos + 2 - start);
            }
            pos = target;
            chunk_start = target;
        } else if b > 63 {
            return Err(NameErr::LabelTooLong);
        } else if b == 0 {
            label_offsets.push(pos);
            wire_len += 1;
            if wire_len > 255 {
                return Err(NameErr::NameTooLong);
            }
            if field_len.is_none() {
                field_len = Some(pos + 1 - start);
            }
            break;
        } else {
            let len = b as usize;
            let end = pos + 1 + len;
            if end > msg.len() {
                return Err(NameErr::Truncated);
            }
            // A label is always followed by at least one more octet.
            if end >= msg.len() {
                return Err(NameErr::Truncated);
            }
            wire_len += 1 + len;
            if wire_len + 1 > 255 {
                return Err(NameErr::NameTooLong);
            }
            label_offsets.push(pos);
            labels.push(msg[pos + 1..end].to_vec());
            pos = end;
        }
    }
    Ok(DecName {
        name: RName(labels),
        start,
        field_len: field_len.unwrap(),
        pointers,
        label_offsets,
    })
}

/// Delimits the first chunk of a (possibly compressed) name at the
/// start of `octets`: labels up to and including the terminating zero
/// octet or a complete two-octet pointer, all inside the buffer.
pub fn skip_name(octets: &[u8]) -> Result<usize, NameErr> {
    let mut pos = 0usize;
    loop {
        let b = *octets.get(pos).ok_or(NameErr::Truncated)?;
        if b & 0xc0 == 0xc0 {
            if pos + 1 >= octets.len() {
                return Err(NameErr::Truncated);
            }
            // at least one more octet (a root label) follows the pointer
            if pos + 1 > 255 {
                return Err(NameErr::NameTooLong);
            }
            return Ok(pos + 2);
        } else if b > 63 {
            return Err(NameErr::LabelTooLong);
        } else if b == 0 {
            if pos + 1 > 255 {
                return Err(NameErr::NameTooLong);
            }
            return Ok(pos + 1);
        } else {
            pos += 1 + b as usize;
            if pos > 255 {
                // even with the shortest possible continuation the name
                // would exceed 255 octets
                return Err(NameErr::NameTooLong);
            }
        }
    }
}

#[derive(Clone, Debug)]
pub struct Header {
    pub id: u16,
    pub flags: u16,
    pub qdcount: u16,
    pub ancount: u16,
    pub nscount: u16,
    pub arcount: u16,
}

impl Header {
    pub fn qr(&self) -> bool {
        self.flags & 0x8000 != 0
    }
    pub fn opcode(&self) -> u8 {
        ((self.flags >> 11) & 0xf) as u8
    }
    pub fn aa(&self) -> bool {
        self.flags & 0x0400 != 0
    }
    pub fn tc(&self) -> bool {
        self.flags & 0x0200 != 0
    }
    pub fn rd(&self) -> bool {
        self.flags & 0x0100 != 0
    }
    pub fn ra(&self) -> bool {
        self.flags & 0x0080 != 0
    }
    pub fn z_bits(&self) -> u16 {
        (self.flags >> 4) & 0x7
    }
    pub fn rcode(&self) -> u16 {
        self.flags & 0xf
    }
}

pub fn parse_header(msg: &[u8]) -> Option<Header> {
    if msg.len() < 12 {
        return None;
    }
    let w = |i: usize| u16::from_be_bytes([msg[i], msg[i + 1]]);
    Some(Header {
        id: w(0),
        flags: w(2),
        qdcount: w(4),
        ancount: w(6),
        nscount: w(8),
        arcount: w(10),
    })
}

#[derive(Clone, Debug)]
pub struct Question {
    pub name: DecName,
    pub qtype: u16,
    pub qclass: u16,
    pub start: usize,
    pub end: usize,
}

#[derive(Clone, Copy, Debug, PartialEq, Eq, PartialOrd, Ord, Hash)]
pub enum Section {
    Answer,
    Authority,
    Additional,
}

#[derive(Clone, Debug)]
pub struct Record {
    pub section: Section,
    pub owner: DecName,
    pub rtype: u16,
    pub class: u16,
    pub ttl: u32,
    pub rdlength: usize,
    pub rdata_start: usize,
    /// RDATA exactly as on the wire.
    pub rdata_raw: Vec<u8>,
    /// RDATA with names of the RFC 1035 types decompressed.
    pub rdata: Vec<u8>,
    /// Names embedded in the RDATA (RFC 1035 types, plus SRV / CH A where
    /// they are parsed as *uncompressed* names).
    pub rdata_names: Vec<DecName>,
    /// The RDATA of an RFC 1035 name-bearing type has the wrong number
    /// of octets after its names (possible when a zone holds malformed
    /// RDATA, which the zone API accepts and the server passes through).
    pub irregular: bool,
    pub start: usize,
    pub end: usize,
}

#[derive(Clone, Debug)]
pub struct Msg {
    pub header: Header,
    pub questions: Vec<Question>,
    pub records: Vec<Record>,
}

impl Msg {
    pub fn section(&self, s: Section) -> impl Iterator<Item = &Record> {
        self.records.iter().filter(move |r| r.section == s)
    }
    pub fn opt(&self) -> Option<&Record> {
        self.records.iter().find(|r| r.rtype == T_OPT)
    }
    pub fn tsig(&self) -> Option<&Record> {
        self.records.iter().find(|r| r.rtype == T_TSIG)
    }
    /// RCODE extended by the OPT record's upper eight bits, if any.
    pub fn ext_rcode(&self) -> u16 {
        let low = self.header.rcode();
        match self.opt() {
            Some(o) => (((o.ttl >> 24) as u16) << 4) | low,
            None => low,
        }
    }
    /// Records other than OPT/TSIG.
    pub fn data_records(&self) -> impl Iterator<Item = &Record> {
        self.records.iter().filter(|r| r.rtype != T_OPT && r.rtype != T_TSIG)
    }
}

/// How the embedded names of an RR type are laid out:
/// (fixed prefix length, number of names, fixed suffix length or None for "rest is opaque").
fn compressible_layout(class: u16, rtype: u16) -> Option<(usize, usize, Option<usize>)> {
    let _ = class;
    match rtype {
        T_NS | T_MD | T_MF | T_CNAME | T_MB | T_MG | T_MR | T_PTR => Some((0, 1, Some(0))),
        T_SOA => Some((0, 2, Some(20))),
        T_MINFO => Some((0, 2, Some(0))),
        T_MX => Some((2, 1, Some(0))),
        _ => None,
    }
}

/// Decodes the RDATA at `start..start+rdlength` of a record of an
/// RFC 1035 name-bearing type, decompressing embedded names.
pub fn decode_rdata(
    msg: &[u8],
    class: u16,
    rtype: u16,
    start: usize,
    rdlength: usize,
) -> Result<(Vec<u8>, Vec<DecName>, bool), String> {
    let end = start + rdlength;
    if end > msg.len() {
        return Err("RDATA extends past end of message".into());
    }
    let raw = &msg[start..end];
    // Names inside RDATA must lie inside the RDATA (pointers may go
    // anywhere earlier); decode against the message cut at `end`.
    let view = &msg[..end];
    if let Some((prefix, n_names, suffix)) = compressible_layout(class, rtype) {
        if rdlength < prefix {
            return Err(format!("RDATA too short for type {}", rtype));
        }
        let mut out = raw[..prefix].to_vec();
        let mut names = Vec::new();
        let mut pos = start + prefix;
        for _ in 0..n_names {
            let dn = decode_name(view, pos).map_err(|e| format!("bad name in RDATA of type {}: {:?}", rtype, e))?;
            pos += dn.field_len;
            out.extend_from_slice(&dn.name.wire());
            names.push(dn);
        }
        if pos > end {
            return Err(format!("names in RDATA of type {} run past RDLENGTH", rtype));
        }
        let rest = &msg[pos..end];
        let irregular = suffix.map_or(false, |s| rest.len() != s);
        out.extend_from_slice(rest);
        Ok((out, names, irregular))
    } else if (rtype == T_SRV && class == C_IN) || (rtype == T_A && class == C_CH) {
        // Names that must NOT be compressed (RFC 3597 §4). Parse them as
        // uncompressed names when possible so monitors can look at them;
        // the RDATA itself is opaque here.
        let prefix = if rtype == T_SRV { 6 } else { 0 };
        let mut names = Vec::new();
        if rdlength >= prefix {
            if let Ok(dn) = decode_name(view, start + prefix) {
                names.push(dn);
            }
        }
        Ok((raw.to_vec(), names, false))
    } else {
        Ok((raw.to_vec(), Vec::new(), false))
    }
}

/// Strictly decodes a whole message.
pub fn decode(msg: &[u8]) -> Result<Msg, String> {
    let header = parse_header(msg).ok_or_else(|| "shorter than a header".to_string())?;
    let mut pos = 12usize;
    let mut questions = Vec::new();
    for i in 0..header.qdcount {
        let name = decode_name(msg, pos).map_err(|e| format!("question {}: bad QNAME: {:?}", i, e))?;
        let after = pos + name.field_len;
        if after + 4 > msg.len() {
            return Err(format!("question {}: truncated", i));
        }
        let qtype = u16::from_be_bytes([msg[after], msg[after + 1]]);
        let qclass = u16::from_be_bytes([msg[after + 2], msg[after + 3]]);
        questions.push(Question {
            name,
            qtype,
            qclass,
            start: pos,
            end: after + 4,
        });
        pos = after + 4;
    }
    let mut records = Vec::new();
    let counts = [
        (Section::Answer, header.ancount),
        (Section::Authority, header.nscount),
        (Section::Additional, header.arcount),
    ];
    for (section, count) in counts {
        for i in 0..count {
            let owner = decode_name(msg, pos)
                .map_err(|e| format!("{:?} record {}: bad owner at {}: {:?}", section, i, pos, e))?;
            let fixed = pos + owner.field_len;
            if fixed + 10 > msg.len() {
                return Err(format!("{:?} record {}: truncated fixed fields", section, i));
            }
            let rtype = u16::from_be_bytes([msg[fixed], msg[fixed + 1]]);
            let class = u16::from_be_bytes([msg[fixed + 2], msg[fixed + 3]]);
            let ttl = u32::from_be_bytes([msg[fixed + 4], msg[fixed + 5], msg[fixed + 6], msg[fixed + 7]]);
            let rdlength = u16::from_be_bytes([msg[fixed + 8], msg[fixed + 9]]) as usize;
            let rdata_start = fixed + 10;
            if rdata_start + rdlength > msg.len() {
                return Err(format!("{:?} record {}: RDLENGTH past end of message", section, i));
            }
            let (rdata, rdata_names, irregular) = decode_rdata(msg, class, rtype, rdata_start, rdlength)
                .map_err(|e| format!("{:?} record {}: {}", section, i, e))?;
            records.push(Record {
                section,
                owner,
                rtype,
                class,
                ttl,
                rdlength,
                rdata_start,
                rdata_raw: msg[rdata_start..rdata_start + rdlength].to_vec(),
                rdata,
                rdata_names,
                irregular,
                start: pos,
                end: rdata_start + rdlength,
            });
            pos = rdata_start + rdlength;
        }
    }
    if pos != msg.len() {
        return Err(format!("{} octets left over after the last record", msg.len() - pos));
    }
    Ok(Msg {
        header,
        questions,
        records,
    })
}

/// Additional well-formedness rules for pseudo-records (RFC 6891 §6.1.1,
/// RFC 8945 §5.1): at most one OPT, only in additional; TSIG at most
/// once, last record of the message, in additional.
pub fn check_pseudo_records(m: &Msg) -> Result<(), String> {
    let n_opt = m.records.iter().filter(|r| r.rtype == T_OPT).count();
    if n_opt > 1 {
        return Err(format!("{} OPT records", n_opt));
    }
    for r in &m.records {
        if (r.rtype == T_OPT || r.rtype == T_TSIG) && r.section != Section::Additional {
            return Err(format!("type {} record in {:?}", r.rtype, r.section));
        }
    }
    let n_tsig = m.records.iter().filter(|r| r.rtype == T_TSIG).count();
    if n_tsig > 1 {
        return Err(format!("{} TSIG records", n_tsig));
    }
    if n_tsig == 1 && m.records.last().map(|r| r.rtype) != Some(T_TSIG) {
        return Err("TSIG is not the last record".into());
    }
    Ok(())
}

/// Parsed TSIG RDATA (RFC 8945 §4.2).
#[derive(Clone, Debug)]
pub struct TsigFields {
    pub algorithm: RName,
    pub time_signed: u64,
    pub fudge: u16,
    pub mac: Vec<u8>,
    pub original_id: u16,
    pub error: u16,
    pub other: Vec<u8>,
}

pub fn parse_tsig_rdata(rdata: &[u8]) -> Option<TsigFields> {
    let (algorithm, alen) = RName::from_wire_uncompressed(rdata)?;
    let rest = rdata.get(alen..)?;
    if rest.len() < 10 {
        return None;
    }
    let mut t = [0u8; 8];
    t[2..8].copy_from_slice(&rest[0..6]);
    let time_signed = u64::from_be_bytes(t);
    let fudge = u16::from_be_bytes([rest[6], rest[7]]);
    let mac_len = u16::from_be_bytes([rest[8], rest[9]]) as usize;
    let mac = rest.get(10..10 + mac_len)?.to_vec();
    let rest = &rest[10 + mac_len..];
    if rest.len() < 6 {
        return None;
    }
    let original_id = u16::from_be_bytes([rest[0], rest[1]]);
    let error = u16::from_be_bytes([rest[2], rest[3]]);
    let other_len = u16::from_be_bytes([rest[4], rest[5]]) as usize;
    let other = rest.get(6..6 + other_len)?.to_vec();
    if rest.len() != 6 + other_len {
        return None;
    }
    Some(TsigFields {
        algorithm,
        time_signed,
        fudge,
        mac,
        original_id,
        error,
        other,
    })
}
