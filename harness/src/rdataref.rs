//! Reference knowledge about RDATA formats, written from RFC 1035
//! §3.3–3.4, RFC 1034 §3.6 (CH A), RFC 3596, RFC 2782, RFC 6891 and
//! RFC 8945: per-type validators, reference equality (RFC 3597 §6/§7),
//! reference decompressing reader, and generators of valid and
//! near-valid RDATA.

use crate::names::RName;
use crate::rng::Rng;
use crate::wire::*;

/// Layout of types that embed domain names:
/// (prefix octets, number of names, exact suffix octets).
pub fn name_layout(class: u16, rtype: u16) -> Option<(usize, usize, usize)> {
    match rtype {
        T_NS | T_MD | T_MF | T_CNAME | T_MB | T_MG | T_MR | T_PTR => Some((0, 1, 0)),
        T_SOA => Some((0, 2, 20)),
        T_MINFO => Some((0, 2, 0)),
        T_MX => Some((2, 1, 0)),
        T_SRV if class == C_IN => Some((6, 1, 0)),
        T_A if class == C_CH => Some((0, 1, 2)),
        _ => None,
    }
}

/// May names in this type's RDATA be compressed when *writing*
/// (RFC 3597 §4: only types defined in RFC 1035)?
pub fn names_compressible(class: u16, rtype: u16) -> bool {
    let _ = class;
    matches!(rtype, T_NS | T_MD | T_MF | T_CNAME | T_MB | T_MG | T_MR | T_PTR | T_SOA | T_MINFO | T_MX)
}

fn char_strings_exact(mut b: &[u8], min: usize, max: Option<usize>) -> bool {
    let mut n = 0;
    while !b.is_empty() {
        let len = b[0] as usize;
        if b.len() < 1 + len {
            return false;
        }
        b = &b[1 + len..];
        n += 1;
    }
    n >= min && max.map_or(true, |m| n <= m)
}

/// Splits name-bearing RDATA into (prefix, names, suffix) if well formed.
pub fn split_names(class: u16, rtype: u16, rdata: &[u8]) -> Option<(Vec<u8>, Vec<RName>, Vec<u8>)> {
    let (prefix, n, suffix) = name_layout(class, rtype)?;
    if rdata.len() < prefix {
        return None;
    }
    let mut pos = prefix;
    let mut names = Vec::new();
    for _ in 0..n {
        let (name, len) = RName::from_wire_uncompressed(&rdata[pos..])?;
        names.push(name);
        pos += len;
    }
    if rdata.len() - pos != suffix {
        return None;
    }
    Some((rdata[..prefix].to_vec(), names, rdata[pos..].to_vec()))
}

/// Is this RDATA well formed for (class, type)? Unknown combinations
/// accept anything (RFC 3597).
pub fn valid(class: u16, rtype: u16, rdata: &[u8]) -> bool {
    if rdata.len() > 65535 {
        return false;
    }
    if name_layout(class, rtype).is_some() {
        return split_names(class, rtype, rdata).is_some();
    }
    match rtype {
        T_A if class == C_IN => rdata.len() == 4,
        T_AAAA if class == C_IN => rdata.len() == 16,
        T_WKS if class == C_IN => rdata.len() >= 5,
        T_HINFO => char_strings_exact(rdata, 2, Some(2)),
        T_TXT => char_strings_exact(rdata, 1, None),
        T_OPT => {
            let mut b = rdata;
            while !b.is_empty() {
                if b.len() < 4 {
                    return false;
                }
                let len = u16::from_be_bytes([b[2], b[3]]) as usize;
                if b.len() < 4 + len {
                    return false;
                }
                b = &b[4 + len..];
            }
            true
        }
        T_TSIG => parse_tsig_rdata(rdata).is_some(),
        _ => true,
    }
}

/// Is (class,type) one for which quandary documents type knowledge
/// (used only for coverage statistics)?
pub fn known(class: u16, rtype: u16) -> bool {
    name_layout(class, rtype).is_some()
        || matches!(
            (class, rtype),
            (C_IN, T_A) | (C_IN, T_AAAA) | (C_IN, T_WKS) | (_, T_HINFO) | (_, T_TXT) | (_, T_OPT) | (_, T_TSIG) | (_, T_NULL)
        )
}

/// Reference equality: octet-wise, except that embedded names of
/// pre-RFC 3597 types compare case-insensitively when *both* RDATA are
/// well formed.
pub fn ref_eq(class: u16, rtype: u16, a: &[u8], b: &[u8]) -> bool {
    if name_layout(class, rtype).is_some() {
        if let (Some((pa, na, sa)), Some((pb, nb, sb))) = (split_names(class, rtype, a), split_names(class, rtype, b)) {
            return pa == pb && sa == sb && na.len() == nb.len() && na.iter().zip(nb.iter()).all(|(x, y)| x.eq_ci(y));
        }
    }
    a == b
}

/// Canonical form for comparing RDATA that went through case-insensitive
/// compression: embedded names of compressible types lower-cased.
pub fn canon(class: u16, rtype: u16, rdata: &[u8]) -> Vec<u8> {
    if names_compressible(class, rtype) {
        if let Some((p, names, s)) = split_names(class, rtype, rdata) {
            let mut out = p;
            for n in names {
                out.extend_from_slice(&n.lower().wire());
            }
            out.extend_from_slice(&s);
            return out;
        }
    }
    rdata.to_vec()
}

/// Reference for reading RDATA out of a message: decompresses embedded
/// names of all name-bearing types known here (RFC 3597 §4 asks
/// receivers to decompress the RFC 1035 types; SRV and CH A are
/// decompressed for compatibility as well) and validates everything.
pub fn ref_read(msg: &[u8], class: u16, rtype: u16, cursor: usize, rdlength: usize) -> Option<Vec<u8>> {
    let end = cursor.checked_add(rdlength)?;
    if end > msg.len() || cursor > msg.len() {
        return None;
    }
    let view = &msg[..end];
    if let Some((prefix, n, suffix)) = name_layout(class, rtype) {
        if rdlength < prefix {
            return None;
        }
        let mut out = msg[cursor..cursor + prefix].to_vec();
        let mut pos = cursor + prefix;
        for _ in 0..n {
            let dn = decode_name(view, pos).ok()?;
            out.extend_from_slice(&dn.name.wire());
            pos += dn.field_len;
        }
        if end - pos != suffix {
            return None;
        }
        out.extend_from_slice(&msg[pos..end]);
        Some(out)
    } else {
        let raw = &msg[cursor..end];
        if valid(class, rtype, raw) {
            Some(raw.to_vec())
        } else {
            None
        }
    }
}

// ---------------------------------------------------------------------
// generators
// ---------------------------------------------------------------------

pub const GEN_TYPES: &[(u16, u16)] = &[
    (C_IN, T_A),
    (C_IN, T_NS),
    (C_IN, T_MD),
    (C_IN, T_MF),
    (C_IN, T_CNAME),
    (C_IN, T_SOA),
    (C_IN, T_MB),
    (C_IN, T_MG),
    (C_IN, T_MR),
    (C_IN, T_NULL),
    (C_IN, T_WKS),
    (C_IN, T_PTR),
    (C_IN, T_HINFO),
    (C_IN, T_MINFO),
    (C_IN, T_MX),
    (C_IN, T_TXT),
    (C_IN, T_AAAA),
    (C_IN, T_SRV),
    (C_IN, T_OPT),
    (C_IN, T_TSIG),
    (C_CH, T_A),
    (C_CH, T_NS),
    (C_CH, T_SRV),
    (C_CH, T_AAAA),
    (C_HS, T_A),
    (C_IN, 99),
    (C_IN, 65280),
    (65280, T_MX),
];

fn char_string(rng: &mut Rng) -> Vec<u8> {
    let len = match rng.below(8) {
        0 => 0,
        1 => 255,
        _ => rng.below(12),
    };
    let mut v = vec![len as u8];
    for _ in 0..len {
        v.push(*rng.pick(b"abc \"\\;()\x00\xff"));
    }
    v
}

/// Valid RDATA for (class, type); names are drawn by `name`.
pub fn gen_valid(rng: &mut Rng, class: u16, rtype: u16, name: &mut dyn FnMut(&mut Rng) -> RName) -> Vec<u8> {
    if let Some((prefix, n, suffix)) = name_layout(class, rtype) {
        let mut out = rng.bytes(prefix);
        for _ in 0..n {
            out.extend_from_slice(&name(rng).wire());
        }
        out.extend_from_slice(&rng.bytes(suffix));
        return out;
    }
    match rtype {
        T_A if class == C_IN => rng.bytes(4),
        T_AAAA if class == C_IN => rng.bytes(16),
        T_WKS if class == C_IN => {
            let n = 5 + rng.below(8);
            rng.bytes(n)
        }
        T_HINFO => {
            let mut v = char_string(rng);
            v.extend(char_string(rng));
            v
        }
        T_TXT => {
            let n = rng.range(1, 3);
            let mut v = Vec::new();
            for _ in 0..n {
                v.extend(char_string(rng));
            }
            v
        }
        T_OPT => {
            let n = rng.below(3);
            let mut v = Vec::new();
            for _ in 0..n {
                let len = rng.below(6);
                v.extend_from_slice(&rng.u16().to_be_bytes());
                v.extend_from_slice(&(len as u16).to_be_bytes());
                v.extend(rng.bytes(len));
            }
            v
        }
        T_TSIG => {
            let mut v = name(rng).wire();
            v.extend(rng.bytes(6));
            v.extend(rng.bytes(2));
            let mac = rng.below(40);
            v.extend_from_slice(&(mac as u16).to_be_bytes());
            v.extend(rng.bytes(mac));
            v.extend(rng.bytes(4));
            let other = if rng.chance(1, 3) { 6 } else { 0 };
            v.extend_from_slice(&(other as u16).to_be_bytes());
            v.extend(rng.bytes(other));
            v
        }
        _ => {
            let n = rng.below(24);
            rng.bytes(n)
        }
    }
}

/// A mutation of valid RDATA: one octet added, removed or changed, a
/// truncation, or appended junk.
pub fn mutate(rng: &mut Rng, rdata: &[u8]) -> Vec<u8> {
    let mut v = rdata.to_vec();
    match rng.below(6) {
        0 if !v.is_empty() => {
            let i = rng.below(v.len());
            v.remove(i);
        }
        1 => {
            let i = rng.below(v.len() + 1);
            v.insert(i, *rng.pick(&[0u8, 1, 63, 64, 0xc0, 0xff, b'a']));
        }
        2 if !v.is_empty() => {
            let i = rng.below(v.len());
            v[i] = *rng.pick(&[0u8, 1, 2, 63, 64, 0xc0, 0xff, b'A', b'a']);
        }
        3 => {
            let cut = rng.below(v.len() + 1);
            v.truncate(cut);
        }
        4 => {
            let n = rng.range(1, 4);
            v.extend(rng.bytes(n));
        }
        _ => {
            // flip the case of a letter (keeps validity)
            let letters: Vec<usize> = v.iter().enumerate().filter(|(_, c)| c.is_ascii_alphabetic()).map(|(i, _)| i).collect();
            if !letters.is_empty() {
                let i = *rng.pick(&letters);
                v[i] ^= 0x20;
            }
        }
    }
    v
}
