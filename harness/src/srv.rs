//! Harness around quandary's `Server`: construction from a generated
//! catalog / key set / RRL configuration, and a panic-catching
//! `handle` that follows the documented buffer contract.

use std::net::{IpAddr, Ipv4Addr};
use std::sync::Arc;

use quandary::db::Catalog;
use quandary::message::tsig::Algorithm;
use quandary::server::{ReceivedInfo, Response, RrlParams, Server, Transport, TsigKeyMap};

use crate::gen::{qname, QCatalog};
use crate::hmac::Alg;
use crate::names::RName;
use crate::panicmon::{self, PanicInfo};

#[derive(Clone, Debug)]
pub struct RrlCfg {
    pub noerror: u32,
    pub nxdomain: u32,
    pub error: u32,
    pub window: u32,
    pub slip: usize,
    pub v4_prefix: u8,
    pub v6_prefix: u8,
    pub size: usize,
}

#[derive(Clone, Debug)]
pub struct Key {
    pub name: RName,
    pub alg: Alg,
    pub secret: Vec<u8>,
}

#[derive(Clone, Debug, Default)]
pub struct ServerCfg {
    pub payload: u16,
    pub rrl: Option<RrlCfg>,
    pub keys: Vec<Key>,
}

pub fn qalg(a: Alg) -> Algorithm {
    match a {
        Alg::Sha1 => Algorithm::HmacSha1,
        Alg::Sha256 => Algorithm::HmacSha256,
    }
}

pub fn key_map(keys: &[Key]) -> TsigKeyMap {
    let mut m = TsigKeyMap::new();
    for k in keys {
        m.insert(qname(&k.name), (qalg(k.alg), k.secret.clone().into_boxed_slice()));
    }
    m
}

pub fn make_server<C: Catalog>(catalog: Arc<C>, cfg: &ServerCfg) -> Server<C> {
    let mut s = Server::new(catalog);
    s.set_edns_udp_payload_size(cfg.payload.max(512)).expect("payload size");
    if let Some(r) = &cfg.rrl {
        let mut p = RrlParams::new(r.noerror, r.nxdomain, r.error, r.window).expect("rrl params");
        p.set_slip(r.slip);
        // 255 = leave the documented default (/24 and /56) untouched
        if r.v4_prefix != 255 {
            p.set_ipv4_prefix_len(r.v4_prefix).expect("v4 prefix");
        }
        if r.v6_prefix != 255 {
            p.set_ipv6_prefix_len(r.v6_prefix).expect("v6 prefix");
        }
        p.set_size(r.size).expect("rrl size");
        s.set_rrl_params(Some(p));
    }
    if !cfg.keys.is_empty() {
        s.set_tsig_keys(Arc::new(key_map(&cfg.keys)));
    }
    s
}

pub const LOCALHOST: IpAddr = IpAddr::V4(Ipv4Addr::new(127, 0, 0, 1));

/// Response buffer following the documented contract: 65 535 octets for
/// TCP, the configured EDNS payload size for UDP.
pub struct Buffers {
    pub tcp: Vec<u8>,
    pub udp: Vec<u8>,
}

impl Buffers {
    pub fn new(payload: u16) -> Self {
        Buffers {
            tcp: vec![0xaa; 65535],
            udp: vec![0xaa; payload.max(512) as usize],
        }
    }

    /// A caller may hand the server a UDP buffer larger than the
    /// configured payload size (the API only asks for "at least");
    /// the size limits must then come from the server, not the buffer.
    pub fn roomy(payload: u16, rng: &mut crate::rng::Rng) -> Self {
        let min = payload.max(512) as usize;
        let udp = match rng.below(4) {
            0 => min,
            1 => min + 1 + rng.below(64),
            2 => min + rng.below(65536 - min),
            _ => 65535,
        };
        Buffers { tcp: vec![0xaa; 65535], udp: vec![0xaa; udp] }
    }
}

/// Handles one request. `Ok(None)` = no response.
pub fn handle<C: Catalog>(server: &Server<C>, req: &[u8], source: IpAddr, tcp: bool, bufs: &mut Buffers) -> Result<Option<Vec<u8>>, PanicInfo> {
    let info = ReceivedInfo::new(source, if tcp { Transport::Tcp } else { Transport::Udp });
    let buf: &mut [u8] = if tcp { &mut bufs.tcp } else { &mut bufs.udp };
    let r = panicmon::catch(|| match server.handle_message(req, info, buf) {
        Response::Single(len) => Some(len),
        Response::None => None,
    })?;
    Ok(r.map(|len| buf[..len.min(buf.len())].to_vec()))
}
