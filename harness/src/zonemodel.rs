//! Oracles Z and R: a flat reference model of a zone (RFC 1034 §4.3.2
//! and RFC 4592 computed from a flat map, deliberately not a tree), a
//! reference catalog, and a reference responder that produces the full
//! expected answer (RCODE, AA, answer, authority, additional).

use std::collections::{BTreeMap, BTreeSet};

use crate::names::RName;
use crate::rdataref as rr;
use crate::wire::*;

#[derive(Clone, Debug, PartialEq, Eq)]
pub struct RRec {
    pub owner: RName,
    pub rtype: u16,
    pub class: u16,
    pub ttl: u32,
    pub rdata: Vec<u8>,
}

#[derive(Clone, Debug)]
pub struct RefRrset {
    pub owner: RName,
    pub rtype: u16,
    pub ttl: u32,
    pub rdatas: Vec<Vec<u8>>,
}

#[derive(Clone, Copy, Debug, PartialEq, Eq)]
pub enum AddErr {
    NotInZone,
    ClassMismatch,
    TtlMismatch,
}

/// RFC 2181 §8: a TTL with the top bit set is treated as zero.
pub fn clamp_ttl(raw: u32) -> u32 {
    if raw > 0x7fff_ffff {
        0
    } else {
        raw
    }
}

fn key(n: &RName) -> Vec<u8> {
    n.lower().wire()
}

#[derive(Clone, Debug)]
pub struct RefZone {
    pub apex: RName,
    pub class: u16,
    /// Every record offered to `add`, with the outcome.
    pub offered: Vec<(RRec, Result<(), AddErr>)>,
    pub rrsets: BTreeMap<(Vec<u8>, u16), RefRrset>,
    /// Lower-cased wire names of every node (owners and the names
    /// between them and the apex).
    pub nodes: BTreeSet<Vec<u8>>,
    /// First-seen spelling of every node name.
    pub node_names: BTreeMap<Vec<u8>, RName>,
}

#[derive(Clone, Debug)]
pub enum Base {
    Found { node: RName, synthesized_from: Option<RName> },
    Referral { cut: RName },
    NxDomain,
    WrongZone,
}

impl RefZone {
    pub fn new(apex: RName, class: u16) -> Self {
        let mut z = RefZone {
            apex: apex.clone(),
            class,
            offered: Vec::new(),
            rrsets: BTreeMap::new(),
            nodes: BTreeSet::new(),
            node_names: BTreeMap::new(),
        };
        z.nodes.insert(key(&apex));
        z.node_names.insert(key(&apex), apex);
        z
    }

    pub fn add(&mut self, rec: RRec) -> Result<(), AddErr> {
        let result = self.add_inner(&rec);
        self.offered.push((rec, result));
        result
    }

    fn add_inner(&mut self, rec: &RRec) -> Result<(), AddErr> {
        if !rec.owner.is_at_or_below(&self.apex) {
            return Err(AddErr::NotInZone);
        }
        if rec.class != self.class {
            return Err(AddErr::ClassMismatch);
        }
        let ttl = clamp_ttl(rec.ttl);
        // the node (and the names between it and the apex) come into
        // existence even if the record is then rejected for its TTL; but
        // a TTL mismatch needs an existing RRset, hence an existing node.
        let depth = rec.owner.0.len() - self.apex.0.len();
        for k in 0..=depth {
            let anc = rec.owner.parent(k).unwrap();
            if self.nodes.insert(key(&anc)) {
                self.node_names.insert(key(&anc), anc);
            }
        }
        let k = (key(&rec.owner), rec.rtype);
        match self.rrsets.get_mut(&k) {
            Some(set) => {
                if set.ttl != ttl {
                    return Err(AddErr::TtlMismatch);
                }
                // (equal RDATA is in any case equal octet for octet up to ASCII case: a cheap filter
                // in front of the comparison proper, which matters for RRsets of a thousand records)
                if !set.rdatas.iter().any(|r| r.len() == rec.rdata.len() && r.eq_ignore_ascii_case(&rec.rdata) && rr::ref_eq(rec.class, rec.rtype, &rec.rdata, r)) {
                    set.rdatas.push(rec.rdata.clone());
                }
            }
            None => {
                self.rrsets.insert(
                    k,
                    RefRrset {
                        owner: rec.owner.clone(),
                        rtype: rec.rtype,
                        ttl,
                        rdatas: vec![rec.rdata.clone()],
                    },
                );
            }
        }
        Ok(())
    }

    pub fn exists(&self, n: &RName) -> bool {
        self.nodes.contains(&key(n))
    }

    pub fn rrset(&self, n: &RName, rtype: u16) -> Option<&RefRrset> {
        self.rrsets.get(&(key(n), rtype))
    }

    pub fn rrsets_at(&self, n: &RName) -> Vec<&RefRrset> {
        let k = key(n);
        self.rrsets.range((k.clone(), 0)..=(k, u16::MAX)).map(|(_, v)| v).collect()
    }

    pub fn soa(&self) -> Option<&RefRrset> {
        self.rrset(&self.apex.clone(), T_SOA)
    }

    /// RFC 1034 §4.3.2 step 3 with RFC 4592 wildcards, computed from the
    /// flat node set. `below_cuts` ignores delegations.
    pub fn lookup(&self, name: &RName, below_cuts: bool) -> Base {
        if !name.is_at_or_below(&self.apex) {
            return Base::WrongZone;
        }
        let depth = name.0.len() - self.apex.0.len();
        for k in 1..=depth {
            let anc = name.parent(depth - k).unwrap();
            if !self.exists(&anc) {
                let ce = name.parent(depth - k + 1).unwrap();
                let wild = ce.child(b"*");
                if self.exists(&wild) {
                    let spelled = self.node_names.get(&key(&wild)).cloned().unwrap_or(wild);
                    return Base::Found {
                        node: spelled.clone(),
                        synthesized_from: Some(spelled),
                    };
                }
                return Base::NxDomain;
            }
            if !below_cuts && self.rrset(&anc, T_NS).is_some() {
                let spelled = self.node_names.get(&key(&anc)).cloned().unwrap_or(anc);
                return Base::Referral { cut: spelled };
            }
        }
        Base::Found {
            node: name.clone(),
            synthesized_from: None,
        }
    }

    /// True if answering for `name` involves a wildcard that itself owns
    /// NS records (RFC 4592 §4.2: undefined).
    pub fn touches_ns_at_wildcard(&self, name: &RName) -> bool {
        match self.lookup(name, true) {
            Base::Found { synthesized_from: Some(w), .. } => self.rrset(&w, T_NS).is_some(),
            _ => false,
        }
    }
}

#[derive(Clone, Debug)]
pub enum EntryState {
    Loaded(RefZone),
    NotYetLoaded,
    FailedToLoad,
}

#[derive(Clone, Debug)]
pub struct RefEntry {
    pub name: RName,
    pub class: u16,
    pub state: EntryState,
    pub id: u64,
}

#[derive(Clone, Debug, Default)]
pub struct RefCatalog {
    pub entries: Vec<RefEntry>,
}

impl RefCatalog {
    /// The entry of `class` whose name is the longest suffix of `name`.
    pub fn lookup(&self, name: &RName, class: u16) -> Option<&RefEntry> {
        self.entries
            .iter()
            .filter(|e| e.class == class && name.is_at_or_below(&e.name))
            .max_by_key(|e| e.name.0.len())
    }

    pub fn get(&self, name: &RName, class: u16) -> Option<&RefEntry> {
        self.entries.iter().find(|e| e.class == class && e.name.eq_ci(name))
    }
}

// ---------------------------------------------------------------------
// reference responder
// ---------------------------------------------------------------------

#[derive(Clone, Debug, Default)]
pub struct Expected {
    pub rcode: u16,
    pub aa: bool,
    pub answer: Vec<RRec>,
    pub authority: Vec<RRec>,
    /// additional records every conforming response carries
    pub additional_required: Vec<RRec>,
    /// additional records a response may carry
    pub additional_allowed: Vec<RRec>,
    /// Of `additional_required`, those that are referral glue for name
    /// servers at or below the delegation (never optional).
    pub glue: Vec<RRec>,
    /// Wildcard owner used to synthesise the (first) answer, if any.
    pub source_of_synthesis: Option<RName>,
    /// Set when the RFCs leave the outcome open for this query; such
    /// queries are counted and not judged.
    pub unspecified: Option<String>,
    pub kind: &'static str,
}

fn rrset_records(set: &RefRrset, owner: &RName, class: u16) -> Vec<RRec> {
    set.rdatas
        .iter()
        .map(|rd| RRec {
            owner: owner.clone(),
            rtype: set.rtype,
            class,
            ttl: set.ttl,
            rdata: rd.clone(),
        })
        .collect()
}

fn name_at(rdata: &[u8], offset: usize) -> Option<RName> {
    RName::from_wire_all(rdata.get(offset..)?)
}

pub const MAX_CNAME_LINKS: usize = 8;

pub struct Responder<'a> {
    pub zone: &'a RefZone,
}

impl<'a> Responder<'a> {
    fn negative_soa(&self, exp: &mut Expected) -> bool {
        match self.zone.soa() {
            Some(soa) if !soa.rdatas.is_empty() => {
                let rd = &soa.rdatas[0];
                if soa.rdatas.len() > 1 {
                    exp.unspecified = Some("more than one SOA record at the apex".into());
                }
                let minimum = match rr::split_names(self.zone.class, T_SOA, rd) {
                    Some((_, _, suffix)) => u32::from_be_bytes([suffix[16], suffix[17], suffix[18], suffix[19]]),
                    None => {
                        exp.unspecified = Some("malformed SOA RDATA".into());
                        0
                    }
                };
                if minimum > 0x7fff_ffff {
                    exp.unspecified = Some("SOA MINIMUM above 2^31-1".into());
                }
                exp.authority.push(RRec {
                    owner: self.zone.apex.clone(),
                    rtype: T_SOA,
                    class: self.zone.class,
                    ttl: soa.ttl.min(minimum),
                    rdata: rd.clone(),
                });
                true
            }
            _ => false,
        }
    }

    fn servfail(&self, kind: &'static str) -> Expected {
        Expected {
            rcode: RC_SERVFAIL,
            aa: false,
            kind,
            ..Default::default()
        }
    }

    /// Address records for `target` (additional-section processing).
    fn addresses(&self, target: &RName, below_cuts: bool, exp: &mut Expected, is_glue: bool) {
        if let Base::Found { node, synthesized_from } = self.zone.lookup(target, below_cuts) {
            let mut types = vec![T_A];
            if self.zone.class == C_IN {
                types.push(T_AAAA);
            }
            for t in types {
                if let Some(set) = self.zone.rrset(&node, t) {
                    let recs = rrset_records(set, target, self.zone.class);
                    exp.additional_allowed.extend(recs.iter().cloned());
                    if synthesized_from.is_none() {
                        exp.additional_required.extend(recs.iter().cloned());
                        if is_glue {
                            exp.glue.extend(recs);
                        }
                    }
                }
            }
        }
    }

    fn additional_for(&self, rtype: u16, set: &RefRrset, exp: &mut Expected) {
        if self.zone.class != C_IN && self.zone.class != C_CH {
            return;
        }
        let offset = match rtype {
            T_NS | T_MD | T_MF | T_MB => 0,
            T_MX => 2,
            T_SRV => 6,
            _ => return,
        };
        for rd in &set.rdatas {
            match name_at(rd, offset) {
                Some(target) => self.addresses(&target, false, exp, false),
                None => exp.unspecified = Some("malformed RDATA in an RRset that needs additional-section processing".into()),
            }
        }
    }

    fn referral(&self, cut: &RName, exp: &mut Expected) {
        let ns = self.zone.rrset(cut, T_NS).expect("cut without NS");
        exp.authority.extend(rrset_records(ns, cut, self.zone.class));
        if self.zone.class != C_IN && self.zone.class != C_CH {
            exp.unspecified = Some("referral in a class without defined address types".into());
        }
        let mut inside = Vec::new();
        let mut outside = Vec::new();
        for rd in &ns.rdatas {
            match name_at(rd, 0) {
                Some(t) => {
                    if t.is_at_or_below(cut) {
                        inside.push(t)
                    } else {
                        outside.push(t)
                    }
                }
                None => exp.unspecified = Some("malformed NS RDATA at a delegation".into()),
            }
        }
        for t in inside {
            self.addresses(&t, true, exp, true);
        }
        for t in outside {
            self.addresses(&t, true, exp, false);
        }
    }

    pub fn respond(&self, qname: &RName, qtype: u16) -> Expected {
        let zone = self.zone;
        let mut exp = Expected::default();
        if zone.touches_ns_at_wildcard(qname) {
            exp.unspecified = Some("wildcard owner with NS records (RFC 4592 §4.2)".into());
        }
        match zone.lookup(qname, false) {
            Base::WrongZone => panic!("reference responder used with a name outside the zone"),
            Base::Referral { cut } => {
                exp.kind = "referral";
                self.referral(&cut, &mut exp);
                exp
            }
            Base::NxDomain => {
                exp.kind = "nxdomain";
                exp.rcode = RC_NXDOMAIN;
                exp.aa = true;
                if !self.negative_soa(&mut exp) {
                    return self.servfail("nxdomain-no-soa");
                }
                exp
            }
            Base::Found { node, synthesized_from } => {
                exp.source_of_synthesis = synthesized_from;
                exp.aa = true;
                if qtype == T_ANY {
                    exp.kind = "any";
                    let sets = zone.rrsets_at(&node);
                    for set in &sets {
                        exp.answer.extend(rrset_records(set, qname, zone.class));
                    }
                    if sets.is_empty() {
                        exp.kind = "any-nodata";
                        if !self.negative_soa(&mut exp) {
                            return self.servfail("nodata-no-soa");
                        }
                    }
                    return exp;
                }
                if let Some(set) = zone.rrset(&node, qtype) {
                    exp.kind = "answer";
                    exp.answer.extend(rrset_records(set, qname, zone.class));
                    self.additional_for(qtype, set, &mut exp);
                    return exp;
                }
                if let Some(cname) = zone.rrset(&node, T_CNAME) {
                    return self.chase(qname, qtype, cname, exp);
                }
                exp.kind = "nodata";
                if !self.negative_soa(&mut exp) {
                    return self.servfail("nodata-no-soa");
                }
                exp
            }
        }
    }

    fn chase(&self, qname: &RName, qtype: u16, first: &RefRrset, mut exp: Expected) -> Expected {
        let zone = self.zone;
        exp.kind = "cname";
        let mut seen: Vec<RName> = vec![qname.clone()];
        let mut owner = qname.clone();
        let mut set = first.clone();
        let mut links = 0;
        loop {
            if set.rdatas.len() > 1 {
                exp.unspecified = Some("more than one CNAME record at a name".into());
            }
            let target = match name_at(&set.rdatas[0], 0) {
                Some(t) => t,
                None => return self.servfail("cname-malformed"),
            };
            if seen.iter().any(|s| s.eq_ci(&target)) {
                return self.servfail("cname-loop");
            }
            links += 1;
            if links > MAX_CNAME_LINKS {
                return self.servfail("cname-too-long");
            }
            exp.answer.push(RRec {
                owner: owner.clone(),
                rtype: T_CNAME,
                class: zone.class,
                ttl: set.ttl,
                rdata: set.rdatas[0].clone(),
            });
            seen.push(target.clone());
            // restart the lookup for the target, inside this zone only
            match zone.lookup(&target, false) {
                Base::WrongZone => {
                    exp.kind = "cname-out-of-zone";
                    return exp;
                }
                Base::Referral { cut } => {
                    exp.kind = "cname-referral";
                    self.referral(&cut, &mut exp);
                    return exp;
                }
                Base::NxDomain => {
                    exp.kind = "cname-nxdomain";
                    exp.rcode = RC_NXDOMAIN;
                    if !self.negative_soa(&mut exp) {
                        return self.servfail("cname-nxdomain-no-soa");
                    }
                    return exp;
                }
                Base::Found { node, synthesized_from } => {
                    if let Some(w) = &synthesized_from {
                        if zone.rrset(w, T_NS).is_some() {
                            exp.unspecified = Some("wildcard owner with NS records (RFC 4592 §4.2)".into());
                        }
                    }
                    if let Some(found) = zone.rrset(&node, qtype) {
                        exp.kind = "cname-answer";
                        exp.answer.extend(rrset_records(found, &target, zone.class));
                        self.additional_for(qtype, found, &mut exp);
                        return exp;
                    }
                    if let Some(next) = zone.rrset(&node, T_CNAME) {
                        owner = target;
                        set = next.clone();
                        continue;
                    }
                    exp.kind = "cname-nodata";
                    if !self.negative_soa(&mut exp) {
                        return self.servfail("cname-nodata-no-soa");
                    }
                    return exp;
                }
            }
        }
    }
}

/// The expected response to a well-formed QUERY against a catalog.
pub fn respond(cat: &RefCatalog, qname: &RName, qtype: u16, qclass: u16) -> Expected {
    if qclass == C_ANY || matches!(qtype, T_IXFR | T_AXFR | T_MAILB | T_MAILA) {
        return Expected {
            rcode: RC_NOTIMP,
            kind: "notimp",
            ..Default::default()
        };
    }
    match cat.lookup(qname, qclass) {
        None => Expected {
            rcode: RC_REFUSED,
            kind: "refused",
            ..Default::default()
        },
        Some(entry) => match &entry.state {
            EntryState::Loaded(zone) => Responder { zone }.respond(qname, qtype),
            _ => Expected {
                rcode: RC_SERVFAIL,
                kind: "servfail-not-loaded",
                ..Default::default()
            },
        },
    }
}
