#![allow(dead_code, unused_variables, unused_imports, clippy::all)]
//! qv — runtime monitors for matttpt/quandary.
//!
//! usage: qv <property> [--tier quick|thorough] [--seed N] [--shard i]
//!           [--nshards n] [--out FILE] [--case K] [--scale F] [--build TAG]

mod gen;
mod hmac;
mod msgbuild;
mod names;
mod panicmon;
mod props;
mod rdataref;
mod reqclass;
mod reqgen;
mod report;
mod rng;
mod srv;
mod wire;
mod zonemodel;

use report::{Json, Report};

#[derive(Clone, Debug)]
pub struct Ctx {
    pub prop: String,
    pub thorough: bool,
    pub seed: u64,
    pub shard: u64,
    pub nshards: u64,
    pub only_case: Option<u64>,
    pub scale: f64,
    pub build: String,
    pub workdir: String,
}

impl Ctx {
    /// Number of cases this shard should run, given totals for the two
    /// tiers (before scaling for slow instrumented builds).
    pub fn cases(&self, quick_total: u64, thorough_total: u64) -> u64 {
        let total = if self.thorough { thorough_total } else { quick_total };
        let scaled = (total as f64 * self.scale).ceil() as u64;
        std::cmp::max(1, (scaled + self.nshards - 1) / self.nshards)
    }

    pub fn rng(&self, tag: &str, case: u64) -> rng::Rng {
        rng::Rng::for_case(self.seed, tag, self.shard, case)
    }

    /// Iterates over the case numbers this invocation should run.
    pub fn case_range(&self, n: u64) -> Box<dyn Iterator<Item = u64>> {
        match self.only_case {
            Some(k) => Box::new(std::iter::once(k)),
            None => Box::new(0..n),
        }
    }

    pub fn is_miri(&self) -> bool {
        self.build == "miri"
    }
}

fn main() {
    let args: Vec<String> = std::env::args().collect();
    if args.len() < 2 {
        eprintln!("usage: qv <property> [options]");
        std::process::exit(2);
    }
    if args[1] == "dbg-req" {
        panicmon::install();
        props::debug_request(&args[2], args.get(3).map(|s| s == "tcp").unwrap_or(false));
        return;
    }
    let mut ctx = Ctx {
        prop: args[1].to_lowercase(),
        thorough: false,
        seed: 1,
        shard: 0,
        nshards: 1,
        only_case: None,
        scale: 1.0,
        build: "dbg".to_string(),
        workdir: "/verif/work".to_string(),
    };
    let mut out: Option<String> = None;
    let mut i = 2;
    while i < args.len() {
        let need = |i: usize| -> &str {
            args.get(i + 1).map(|s| s.as_str()).unwrap_or_else(|| {
                eprintln!("missing value for {}", args[i]);
                std::process::exit(2);
            })
        };
        match args[i].as_str() {
            "--tier" => ctx.thorough = need(i) == "thorough",
            "--seed" => ctx.seed = need(i).parse().expect("seed"),
            "--shard" => ctx.shard = need(i).parse().expect("shard"),
            "--nshards" => ctx.nshards = need(i).parse().expect("nshards"),
            "--out" => out = Some(need(i).to_string()),
            "--case" => ctx.only_case = Some(need(i).parse().expect("case")),
            "--scale" => ctx.scale = need(i).parse().expect("scale"),
            "--build" => ctx.build = need(i).to_string(),
            "--workdir" => ctx.workdir = need(i).to_string(),
            other => {
                eprintln!("unknown option {}", other);
                std::process::exit(2);
            }
        }
        i += 2;
    }
    panicmon::install();
    if let Err(e) = hmac::selftest() {
        eprintln!("harness self-test failed: {}", e);
        std::process::exit(2);
    }
    let mut rep = Report::new(&ctx.prop.to_uppercase());
    let started = std::time::Instant::now();
    // zones with a thousand records are out of reach of the interpreter
    gen::SMALL_ZONES.store(ctx.is_miri(), std::sync::atomic::Ordering::Relaxed);
    let known = props::run(&ctx, &mut rep);
    if !known {
        eprintln!("unknown property {}", ctx.prop);
        std::process::exit(2);
    }
    rep.extra("wall_s", Json::Num(started.elapsed().as_secs_f64()));
    rep.extra("build", Json::s(ctx.build.clone()));
    rep.extra("shard", Json::Int(ctx.shard as i128));
    let text = rep.to_json().to_string();
    match out {
        Some(path) => std::fs::write(&path, text).expect("write fragment"),
        None => println!("{}", text),
    }
    // The driver decides the verdict from the fragment; the exit status
    // only says whether the monitor itself ran to completion.
    std::process::exit(0);
}
