//! What a monitor observed: evaluations, distinct non-trivial outcome
//! classes, samples, a histogram, violations with witnesses, and
//! inconclusive reasons. One `Report` per shard; written as a JSON
//! fragment that the `check` driver merges into evidence/<id>.json.

use std::collections::{BTreeMap, BTreeSet};
use std::fmt::Write as _;

use crate::rng::fnv1a;

#[derive(Clone, Debug)]
pub enum Json {
    Null,
    Bool(bool),
    Num(f64),
    Int(i128),
    Str(String),
    Arr(Vec<Json>),
    Obj(Vec<(String, Json)>),
}

impl Json {
    pub fn s(x: impl Into<String>) -> Json {
        Json::Str(x.into())
    }
    pub fn i(x: impl Into<i128>) -> Json {
        Json::Int(x.into())
    }
    pub fn obj(items: Vec<(&str, Json)>) -> Json {
        Json::Obj(items.into_iter().map(|(k, v)| (k.to_string(), v)).collect())
    }
    pub fn hex(data: &[u8]) -> Json {
        Json::Str(hex(data))
    }

    pub fn write(&self, out: &mut String) {
        match self {
            Json::Null => out.push_str("null"),
            Json::Bool(b) => out.push_str(if *b { "true" } else { "false" }),
            Json::Num(n) => {
                if n.is_finite() {
                    let _ = write!(out, "{}", n);
                } else {
                    out.push_str("null");
                }
            }
            Json::Int(n) => {
                let _ = write!(out, "{}", n);
            }
            Json::Str(s) => write_str(out, s),
            Json::Arr(items) => {
                out.push('[');
                for (i, item) in items.iter().enumerate() {
                    if i > 0 {
                        out.push(',');
                    }
                    item.write(out);
                }
                out.push(']');
            }
            Json::Obj(items) => {
                out.push('{');
                for (i, (k, v)) in items.iter().enumerate() {
                    if i > 0 {
                        out.push(',');
                    }
                    write_str(out, k);
                    out.push(':');
                    v.write(out);
                }
                out.push('}');
            }
        }
    }

    pub fn to_string(&self) -> String {
        let mut s = String::new();
        self.write(&mut s);
        s
    }
}

fn write_str(out: &mut String, s: &str) {
    out.push('"');
    for c in s.chars() {
        match c {
            '"' => out.push_str("\\\""),
            '\\' => out.push_str("\\\\"),
            '\n' => out.push_str("\\n"),
            '\r' => out.push_str("\\r"),
            '\t' => out.push_str("\\t"),
            c if (c as u32) < 0x20 => {
                let _ = write!(out, "\\u{:04x}", c as u32);
            }
            c => out.push(c),
        }
    }
    out.push('"');
}

pub fn hex(data: &[u8]) -> String {
    let mut s = String::with_capacity(data.len() * 2);
    for b in data {
        let _ = write!(s, "{:02x}", b);
    }
    s
}

pub fn unhex(s: &str) -> Option<Vec<u8>> {
    let b = s.as_bytes();
    if b.len() % 2 != 0 {
        return None;
    }
    let mut out = Vec::with_capacity(b.len() / 2);
    for i in (0..b.len()).step_by(2) {
        let hi = (b[i] as char).to_digit(16)?;
        let lo = (b[i + 1] as char).to_digit(16)?;
        out.push((hi * 16 + lo) as u8);
    }
    Some(out)
}

#[derive(Clone, Debug)]
pub struct Violation {
    /// Stable identification of *what* failed (used to match known
    /// findings): never contains seeds or addresses.
    pub signature: String,
    pub detail: String,
    pub witness: Json,
    pub case: u64,
    pub count: u64,
}

pub struct Report {
    pub property: String,
    pub evaluations: u64,
    pub distinct: BTreeSet<u64>,
    pub distinct_overflow: bool,
    pub samples: Vec<Json>,
    pub histogram: BTreeMap<String, u64>,
    pub violations: Vec<Violation>,
    pub inconclusive: Vec<String>,
    pub extra: Vec<(String, Json)>,
    pub max_samples: usize,
    pub current_case: u64,
}

const MAX_DISTINCT: usize = 400_000;
const MAX_VIOLATIONS: usize = 40;

impl Report {
    pub fn new(property: &str) -> Self {
        Report {
            property: property.to_string(),
            evaluations: 0,
            distinct: BTreeSet::new(),
            distinct_overflow: false,
            samples: Vec::new(),
            histogram: BTreeMap::new(),
            violations: Vec::new(),
            inconclusive: Vec::new(),
            extra: Vec::new(),
            max_samples: 6,
            current_case: 0,
        }
    }

    /// One execution was judged by the oracle.
    pub fn eval(&mut self) {
        self.evaluations += 1;
    }

    pub fn evals(&mut self, n: u64) {
        self.evaluations += n;
    }

    /// Records a distinct, non-trivial outcome class.
    pub fn class(&mut self, key: &str) {
        self.class_hash(fnv1a(key.as_bytes()));
    }

    pub fn class_hash(&mut self, h: u64) {
        if self.distinct.len() < MAX_DISTINCT {
            self.distinct.insert(h);
        } else if !self.distinct.contains(&h) {
            self.distinct_overflow = true;
        }
    }

    pub fn hist(&mut self, key: &str) {
        *self.histogram.entry(key.to_string()).or_insert(0) += 1;
    }

    pub fn hist_n(&mut self, key: &str, n: u64) {
        *self.histogram.entry(key.to_string()).or_insert(0) += n;
    }

    pub fn sample(&mut self, f: impl FnOnce() -> Json) {
        if self.samples.len() < self.max_samples {
            self.samples.push(f());
        }
    }

    pub fn want_sample(&self) -> bool {
        self.samples.len() < self.max_samples
    }

    pub fn violation(&mut self, signature: impl Into<String>, detail: impl Into<String>, witness: Json) {
        let signature = signature.into();
        if let Some(v) = self.violations.iter_mut().find(|v| v.signature == signature) {
            v.count += 1;
            return;
        }
        if self.violations.len() < MAX_VIOLATIONS {
            self.violations.push(Violation {
                signature,
                detail: detail.into(),
                witness,
                case: self.current_case,
                count: 1,
            });
        }
    }

    pub fn inconclusive(&mut self, reason: impl Into<String>) {
        let reason = reason.into();
        if self.inconclusive.len() < 20 && !self.inconclusive.contains(&reason) {
            self.inconclusive.push(reason);
        }
    }

    pub fn extra(&mut self, key: &str, value: Json) {
        if let Some(e) = self.extra.iter_mut().find(|(k, _)| k == key) {
            e.1 = value;
        } else {
            self.extra.push((key.to_string(), value));
        }
    }

    pub fn to_json(&self) -> Json {
        Json::obj(vec![
            ("property", Json::s(self.property.clone())),
            ("evaluations", Json::Int(self.evaluations as i128)),
            (
                "distinct",
                Json::Arr(self.distinct.iter().map(|h| Json::Str(format!("{:016x}", h))).collect()),
            ),
            ("distinct_overflow", Json::Bool(self.distinct_overflow)),
            ("samples", Json::Arr(self.samples.clone())),
            (
                "histogram",
                Json::Obj(
                    self.histogram
                        .iter()
                        .map(|(k, v)| (k.clone(), Json::Int(*v as i128)))
                        .collect(),
                ),
            ),
            (
                "violations",
                Json::Arr(
                    self.violations
                        .iter()
                        .map(|v| {
                            Json::obj(vec![
                                ("signature", Json::s(v.signature.clone())),
                                ("detail", Json::s(v.detail.clone())),
                                ("witness", v.witness.clone()),
                                ("case", Json::Int(v.case as i128)),
                                ("count", Json::Int(v.count as i128)),
                            ])
                        })
                        .collect(),
                ),
            ),
            (
                "inconclusive",
                Json::Arr(self.inconclusive.iter().map(|s| Json::s(s.clone())).collect()),
            ),
            ("extra", Json::Obj(self.extra.clone())),
        ])
    }
}
