"""Per-property configuration of the check driver: which instrumented
builds each tier runs, how many shards, and the texts that go into the
evidence files."""

Q16 = [dict(build="dbg", nshards=16)]


def plans(*items):
    return [dict(i) for i in items]


COMMON_ASSUMPTIONS = [
    "the harness oracles (written from the RFCs, self-tested at start-up) are correct",
    "coverage is what the generated workloads reach; nothing is claimed for unexplored inputs or schedules",
]

PROPS = {
    "C17": dict(
        technique="exhaustive execution of the real conversions with round-trip and table oracles",
        rule="every 16-bit value of TYPE/QTYPE/CLASS/QCLASS/extended RCODE and every 8-bit opcode/RCODE value is "
             "executed (sharded by value mod 16); every case pattern of every mnemonic; three case patterns of the "
             "TYPEnnn/CLASSnnn prefix per value. distinct = distinct (kind, value) and (kind, mnemonic spelling) pairs",
        assumptions=COMMON_ASSUMPTIONS + ["mnemonic table taken from RFC 1035/3596/2782/6891/8945/2136"],
        quick=plans(dict(build="dbg", nshards=16)),
        thorough=plans(dict(build="dbg", nshards=16), dict(build="rel", nshards=16),
                       dict(build="miri", nshards=16, scale=1.0, timeout=3000)),
        min_evaluations=700000,
    ),
}
