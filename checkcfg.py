"""Per-property configuration of the check driver: which instrumented
builds each tier runs, how many shards, and the texts that go into the
evidence files."""

Q16 = [dict(build="dbg", nshards=16)]


def plans(*items):
    return [dict(i) for i in items]


COMMON_ASSUMPTIONS = [
    "the harness oracles (written from the RFCs, self-tested at start-up) are correct",
    "coverage is what the generated workloads reach; nothing is claimed for unexplored inputs or schedules",
]

PROPS = {
    "C14": dict(
        technique="differential execution against an independent RFC 1035 §4.1.4 decoder; panic monitor; Miri/ASan on the same workload",
        rule="exhaustive: every buffer of length <= 5 over the 12 significant octets {0,1,2,3,63,64,0x80,0xbf,0xc0,0xc1,0xff,'a'} "
             "at every start offset 0..len+1 (1 875 494 (buffer,start) pairs; length <= 3 under Miri); plus seeded structured "
             "buffers up to ~600 octets (pointer chains, 255/256-octet names, 127/128 labels, forward/self pointers, "
             "truncations) at every name start, a random offset and the end. All of try_from_compressed, skip_compressed, "
             "try_from_uncompressed(_all), validate_uncompressed(_all) are compared on accept/reject, name and length. "
             "distinct = distinct outcome classes (accept/reject reason, label count, pointer count, field length, "
             "skip length, uncompressed verdicts)",
        assumptions=COMMON_ASSUMPTIONS + ["error *kinds* are not compared, only acceptance, name and length"],
        quick=plans(dict(build="dbg", nshards=16), dict(build="miri", nshards=4, timeout=900)),
        thorough=plans(dict(build="dbg", nshards=16), dict(build="rel", nshards=16),
                       dict(build="asan", nshards=16, scale=0.3), dict(build="miri", nshards=16, scale=1.0, timeout=3000)),
        min_evaluations=1500000,
    ),
    "C15": dict(
        technique="reference-cursor monitor: every Reader operation is compared with an independent decoder on "
                  "accept/reject, every field and the new position; panic monitor; Miri/ASan on the same workload",
        rule="seeded messages built by the harness encoder (0-2 questions, 0-2 records per section over 28 class/type "
             "combinations, compressed and plain names, TTLs with the top bit set), 0-2 byte-level mutations (truncation "
             "at field boundaries, counts, RDLENGTH, pointer retargeting, inserts/deletes/flips), plus random octet strings; "
             "each driven by 1-14 random operations out of read_question, skip_question, read_rr, skip_rr, "
             "peek_rr+{fields,owner,skip,parse}, mark, rewind, at_eom, message_to_cursor. evaluations = operations "
             "judged; distinct = (first three operations, ended at EOM or not) classes",
        assumptions=COMMON_ASSUMPTIONS + ["TTLs are compared after the RFC 2181 §8 interpretation (top bit set = 0)"],
        quick=plans(dict(build="dbg", nshards=16), dict(build="miri", nshards=4, timeout=900)),
        thorough=plans(dict(build="dbg", nshards=16), dict(build="rel", nshards=16),
                       dict(build="asan", nshards=16, scale=0.3), dict(build="miri", nshards=16, timeout=3000)),
        min_evaluations=500000,
    ),
    "C16": dict(
        technique="differential execution against a reference name model (text parser, RFC 4034 order, case folding); "
                  "model-based test of NameBuilder with atomicity oracle; Miri on the unsafe DST conversions",
        rule="seeded pools of 2-5 valid names (boundary shapes: root, 63-octet labels, 255-octet names, 127 labels, "
             "arbitrary octets, case variants, shifted label boundaries, parents/children/siblings); every name: "
             "Display->FromStr round trip, independent parse of the rendering, all accessors; every ordered pair: "
             "==, Hash, cmp, eq_or_subdomain_of, LowercaseName, labels; triples: transitivity and sorting; random and "
             "mutated text strings: acceptance equals the reference parser's; random NameBuilder programs with "
             "failed-operation atomicity. distinct = outcome classes (label count, wire length bucket, wildcard, "
             "escapes; pair relation; text verdict; builder outcome)",
        assumptions=COMMON_ASSUMPTIONS + ["hash comparison uses std DefaultHasher with its fixed keys; a 2^-64 collision would be a false alarm"],
        quick=plans(dict(build="dbg", nshards=16), dict(build="miri", nshards=4, timeout=900)),
        thorough=plans(dict(build="dbg", nshards=16), dict(build="rel", nshards=16),
                       dict(build="asan", nshards=16, scale=0.3), dict(build="miri", nshards=16, scale=1.0, timeout=3000)),
        min_evaluations=500000,
    ),
    "C18": dict(
        technique="differential execution against per-type reference validators and a reference decompressing reader; "
                  "writer->reader round trip; panic monitor; Miri/ASan",
        rule="per case: 4 (class,type) pairs out of 28 (all types the library knows, CH A, class-specific types in the "
             "wrong class, unknown types), each with valid RDATA, two successive single-octet mutations and random junk, "
             "checked against validate(); a hand-encoded message with 1-4 records (compressed names) read with "
             "Rdata::read at the true span, neighbouring lengths/cursors, as a different type, at/after the end of the "
             "message, random (cursor,RDLENGTH) and after damaging one octet; and 1-5 valid records written by the Writer "
             "in a random compression mode and read back. distinct = (operation, class, type, verdict) classes",
        assumptions=COMMON_ASSUMPTIONS + ["under standard (case-insensitive) compression, read-back names are compared ignoring ASCII case"],
        quick=plans(dict(build="dbg", nshards=16), dict(build="miri", nshards=4, timeout=900)),
        thorough=plans(dict(build="dbg", nshards=16), dict(build="rel", nshards=16),
                       dict(build="asan", nshards=16, scale=0.3), dict(build="miri", nshards=16, timeout=3000)),
        min_evaluations=500000,
    ),
    "C19": dict(
        technique="all-pairs/all-triples check of Rdata::equals against a reference equality on collision-rich pools; "
                  "model check of RdataSetOwned insertion order; Miri",
        rule="per case one (class,type) out of 21 (all name-bearing pre-RFC 3597 types, CH A, IN SRV, the same types in "
             "other classes, nameless and unknown types) and a pool of 3-9 RDATA built from 5 names with case flips, "
             "trailing junk, truncations and single-octet mutations; all ordered pairs (meaning, reflexivity, symmetry), "
             "all triples (transitivity), and a shuffled insertion sequence into RdataSetOwned via insert and from_iter. "
             "distinct = (class, type, well-formedness of both sides, expected verdict) and set-shape classes",
        assumptions=COMMON_ASSUMPTIONS,
        quick=plans(dict(build="dbg", nshards=16), dict(build="miri", nshards=4, timeout=900)),
        thorough=plans(dict(build="dbg", nshards=16), dict(build="rel", nshards=16),
                       dict(build="asan", nshards=16, scale=0.3), dict(build="miri", nshards=16, timeout=3000)),
        min_evaluations=500000,
    ),
    "C17": dict(
        technique="exhaustive execution of the real conversions with round-trip and table oracles",
        rule="every 16-bit value of TYPE/QTYPE/CLASS/QCLASS/extended RCODE and every 8-bit opcode/RCODE value is "
             "executed (sharded by value mod 16); every case pattern of every mnemonic; three case patterns of the "
             "TYPEnnn/CLASSnnn prefix per value. distinct = distinct (kind, value) and (kind, mnemonic spelling) pairs",
        assumptions=COMMON_ASSUMPTIONS + ["mnemonic table taken from RFC 1035/3596/2782/6891/8945/2136"],
        quick=plans(dict(build="dbg", nshards=16)),
        thorough=plans(dict(build="dbg", nshards=16), dict(build="rel", nshards=16),
                       dict(build="miri", nshards=16, scale=1.0, timeout=3000)),
        min_evaluations=700000,
    ),
}
