"""Per-property configuration of the check driver: which instrumented
builds each tier runs, how many shards, and the texts that go into the
evidence files."""

Q16 = [dict(build="dbg", nshards=16)]


def plans(*items):
    return [dict(i) for i in items]


COMMON_ASSUMPTIONS = [
    "the harness oracles (written from the RFCs, self-tested at start-up) are correct",
    "coverage is what the generated workloads reach; nothing is claimed for unexplored inputs or schedules",
]

PROPS = {
    "C01": dict(
        technique="panic/abort monitor (catch_unwind + sharded subprocesses) around Server::handle_message under hostile "
                  "requests; the same workload under release, AddressSanitizer and Miri builds",
        rule="scenarios = generated catalogs (1-3 nested zones in IN/CH/HS incl. zones with malformed RDATA, missing SOA, "
             "duplicate CNAMEs, not-yet-loaded/failed entries; SingleZoneCatalog as well) x server payload sizes 512..65535 x "
             "RRL on/off x TSIG key sets (incl. 190-octet key names, 1..100-octet secrets); 40 requests per scenario: "
             "3/4 hostile (random octets up to 65535, every kind of prefix, 1-3 structured mutations of counts, RDLENGTH, "
             "pointers, inserts, deletes, flips), TSIG-signed requests (valid, stale, corrupted or truncated MAC, unknown "
             "key, 255-octet algorithm name) and their mutations; UDP and TCP; IPv4, IPv6 and mapped sources. "
             "distinct = (how the request was made, response shape, request classification) classes; requests are also shaped structurally (question section cleared, opcodes 1-15, 0/1/2 OPT records with arbitrary version / extended-RCODE octets at any position); one in twelve bulky zones holds an RRset of 700-1100 MX records (TCP responses above 16 KiB) that a sixth of the requests ask for; signed requests also use algorithm and key names of 255 and of 256 octets; a third of the bulky zones hold an MX fan-out (17-40 nested exchanges with 0-14 addresses each); every scenario's name list contains wire-confusable names (a label spelling a catalog entry's wire form); each shard also runs a small pass through a real I/O provider (blocking or Tokio; 10 TCP and 10 UDP batches): the octets received must equal handle_message's response to each request alone",
        assumptions=COMMON_ASSUMPTIONS + ["response buffers follow the documented caller contract (65535 for TCP, the EDNS payload size for UDP)"],
        quick=plans(dict(build="dbg", nshards=16), dict(build="miri", nshards=4, timeout=900)),
        thorough=plans(dict(build="dbg", nshards=16), dict(build="rel", nshards=16), dict(build="asan", nshards=16, scale=0.2), dict(build="miri", nshards=16, timeout=3000)),
        min_evaluations=200000,
    ),
    "C02": dict(
        technique="every emitted response is decoded by an independent strict RFC 1035/6891/8945 decoder (no octet left "
                  "over, counts, names, pointers, RDATA of RFC 1035 types, OPT/TSIG placement)",
        rule="same scenario generator as C01 (hostile zones included), 40 requests per scenario, half of them hostile, "
             "TSIG-signed requests when keys are configured; every response (to well-formed and malformed requests alike) "
             "is decoded. distinct = (request kind, response shape) classes; same structural shaping and >16 KiB responses as C01; each shard also runs a small pass through a real I/O provider (blocking or Tokio; 10 TCP and 10 UDP batches): the octets received must equal handle_message's response to each request alone",
        assumptions=COMMON_ASSUMPTIONS + ["type-specific RDATA validity is demanded for RFC 1035 name-bearing types only (zones may hold opaque or malformed RDATA for other types)"],
        quick=plans(dict(build="dbg", nshards=16)),
        thorough=plans(dict(build="dbg", nshards=16), dict(build="rel", nshards=16), dict(build="asan", nshards=16, scale=0.2), dict(build="miri", nshards=16, timeout=3000)),
        min_evaluations=150000,
    ),
    "C03": dict(
        technique="oracle computed from the request octets alone (ID, opcode, QR, RD, RA, reserved bits, question echo, "
                  "no-response conditions)",
        rule="exhaustive: all 65536 values of the header flag word x 2 bodies (mixed-case question / no question) x both "
             "transports; plus scenarios with random flag words, QR set, 0/1/2 questions, QNAMEs that are pointers into "
             "the header, mixed-case QNAMEs, and hostile mutations. distinct = (opcode, RD, question present, flag bits) classes; half of the scenarios carry TSIG key sets and a third of their requests are signed (valid, stale, corrupted, unknown key, and valid with a TSIG Original ID that differs from the header ID); each shard also runs a small pass through a real I/O provider (blocking or Tokio; 10 TCP and 10 UDP batches): the octets received must equal handle_message's response to each request alone; a quarter of the scenarios switch rate limiting on with limits that are never reached (every response passes through the limiter's classification and must come out unchanged)",
        assumptions=COMMON_ASSUMPTIONS + ["RRL disabled so that a missing response is attributable"],
        quick=plans(dict(build="dbg", nshards=16)),
        thorough=plans(dict(build="dbg", nshards=16), dict(build="rel", nshards=16), dict(build="asan", nshards=16, scale=0.2), dict(build="miri", nshards=16, timeout=3000)),
        min_evaluations=200000,
    ),
    "C04": dict(
        technique="UDP/TCP twin calls on one server; size-limit, TC and omission oracle over the decoded pair",
        rule="catalogs with RRsets of 10-80 addresses, 200-octet TXT records, owner names of 120-190 octets with MX sets "
             "(defeating compression), referrals with and without glue; request EDNS payload sizes drawn from "
             "{0,1,511,512,513,600,700,1232,1233,2000,4096,65535,random}; server sizes 512..65535; every request is sent "
             "over UDP and over TCP. distinct = (outcome kind: same / tc / partial, size bucket of the complete response); the UDP response buffer handed to the server is the configured payload size, slightly larger, random, or 65535 octets (the limit must come from the server, not from the buffer); a third of the scenarios carry TSIG keys (key names related to zone names, up to 190 octets) and a third of their requests are validly signed, so the space taken by the TSIG record takes part in every size decision (the comparison with the TCP response then ignores the TSIG records themselves); a quarter of the requests in key scenarios have a QNAME of 200-255 octets below a loaded zone, so that question + TSIG record approach and exceed 512 octets. Not judged: TC over UDP when the TCP outcome is a SERVFAIL reached only after writing a CNAME chain (the server cannot foresee it); a sixth of the scenarios have rate limiting on (there only 'TCP never sets TC' and the UDP size limit are judged); MX fan-outs as in C01 make optional address RRsets stop and start fitting in the middle of a response; each shard also runs a small pass through a real I/O provider (blocking or Tokio; 10 TCP and 10 UDP batches): the octets received must equal handle_message's response to each request alone",
        assumptions=COMMON_ASSUMPTIONS + ["no TSIG and no RRL in this workload (byte-equality of the twin responses)"],
        quick=plans(dict(build="dbg", nshards=16)),
        thorough=plans(dict(build="dbg", nshards=16), dict(build="rel", nshards=16), dict(build="asan", nshards=16, scale=0.05), dict(build="miri", nshards=16, timeout=3000)),
        min_evaluations=50000,
    ),
    "C05": dict(
        technique="differential execution against an independent flat-map implementation of RFC 1034 §4.3.2 / RFC 4592 / "
                  "RFC 6604 / RFC 2308 (reference responder R), responses decoded by W",
        rule="catalogs of 1-3 nested zones (IN, some CH) with delegations at several depths, glue inside/outside, "
             "wildcards under and beside cuts, empty non-terminals, CNAME chains and loops, MX/SRV/NS targets, mixed case; "
             "up to 48 names per catalog (every owner and RDATA target, parents, children, grandchildren, random case) x 3 "
             "query types out of {A,AAAA,NS,CNAME,SOA,MX,TXT,SRV,ANY,PTR,MB,TYPE99}; TCP or UDP with EDNS 65535. "
             "RCODE, AA, answer and authority (multisets), additional (required <= actual <= allowed) are compared. "
             "distinct = (expected outcome kind, response shape, wildcard synthesis) classes; a third of the scenarios carry TSIG keys and half of their TCP queries are validly signed (same answer expected)",
        assumptions=COMMON_ASSUMPTIONS + [
            "queries whose outcome the RFCs leave open are counted and not judged: wildcard owners with NS records "
            "(RFC 4592 §4.2), several CNAME/SOA records at one name, malformed RDATA that processing must interpret, "
            "SOA MINIMUM above 2^31-1",
            "wildcard-synthesised address records in the additional section are allowed but not required"],
        quick=plans(dict(build="dbg", nshards=16)),
        thorough=plans(dict(build="dbg", nshards=16), dict(build="rel", nshards=16), dict(build="asan", nshards=16, scale=0.2), dict(build="miri", nshards=16, timeout=3000)),
        min_evaluations=100000,
    ),
    "C07": dict(
        technique="oracle from the statement (reference catalog: longest suffix per class; NOTIMP/REFUSED/SERVFAIL rules) "
                  "over decoded responses, for HashMapTreeCatalog and SingleZoneCatalog",
        rule="catalogs of 1-5 entries over nested names in IN/CH/HS/CLASS65280 in the states loaded / not-yet-loaded / "
             "failed; requests with opcodes 0-15, with and without a question, QCLASS ANY/NONE/unknown, QTYPE "
             "AXFR/IXFR/MAILA/MAILB, names inside, between and outside the entries. distinct = (expected rule, response shape); half of the catalogs are edited histories: 1-3 decoy entries below, above and beside the lasting entries are inserted and removed again in random order; a third of the scenarios carry TSIG keys and a third of their requests are validly signed (same outcome expected); the name list contains, for every catalog entry, wire-confusable names (one label spelling the entry's wire form, or only its first label); a quarter of the scenarios switch rate limiting on with limits that are never reached (every response passes through the limiter's classification and must come out unchanged)",
        assumptions=COMMON_ASSUMPTIONS,
        quick=plans(dict(build="dbg", nshards=16)),
        thorough=plans(dict(build="dbg", nshards=16), dict(build="rel", nshards=16), dict(build="asan", nshards=16, scale=0.2), dict(build="miri", nshards=16, timeout=3000)),
        min_evaluations=150000,
    ),
    "C08": dict(
        technique="request classifier P (first problem in message order, written from the RFCs) vs the decoded response",
        rule="well-formed requests (with OPT, junk records in every section) damaged by: truncation at every kind of "
             "offset, appended junk (1-300 octets), each count +-1 / 0 / 65535, RDLENGTH edits, OPT/TSIG moved to "
             "answer/authority, duplicated OPT, pointer retargeting, inserts, deletes, flips; 5/6 of requests are damaged. "
             "Judged when P finds a FORMERR-class problem (or a QUERY without question). distinct = (reason, response shape); a fifth of the requests get 0/1/2 OPT records at any position with arbitrary version / extended-RCODE octets and owners, so that duplicate-OPT FORMERR competes with BADVERS; an eighth of the requests carry a record whose owner labels total 252-256 octets, ended by a root label or a pointer to the QNAME (the 255-octet name limit decides whether the record can be delimited); a quarter of the scenarios switch rate limiting on with limits that are never reached (every response passes through the limiter's classification and must come out unchanged); a third of the servers have TSIG keys, and signed requests include ones whose TSIG class alone, TTL alone, or both are wrong",
        assumptions=COMMON_ASSUMPTIONS + ["a TSIG TTL with the top bit set is not judged (RFC 2181 §8 reads it as zero)"],
        quick=plans(dict(build="dbg", nshards=16)),
        thorough=plans(dict(build="dbg", nshards=16), dict(build="rel", nshards=16), dict(build="asan", nshards=16, scale=0.2), dict(build="miri", nshards=16, timeout=3000)),
        min_evaluations=150000,
    ),
    "C09": dict(
        technique="request classifier P (was an OPT reached, raw version/extended-RCODE octets) vs the decoded response",
        rule="requests with 0/1/2 OPT records at any position of any section, OPT TTL octets drawn from version x "
             "{0,1,0x7f,0x80,0xff} extended-RCODE bytes x flag words, payload sizes incl. 0/511/512/65535/random, non-root "
             "owners, valid and damaged options, other additional records before and after; server payload sizes 512..65535. "
             "distinct = (OPT reached, payload bucket / BADVERS / owner error, response shape); a third of the scenarios carry TSIG keys and a third of their requests are validly signed; a quarter of the scenarios switch rate limiting on with limits that are never reached (every response passes through the limiter's classification and must come out unchanged); a tenth of the requests have no question and a twelfth another opcode",
        assumptions=COMMON_ASSUMPTIONS,
        quick=plans(dict(build="dbg", nshards=16)),
        thorough=plans(dict(build="dbg", nshards=16), dict(build="rel", nshards=16), dict(build="asan", nshards=16, scale=0.2), dict(build="miri", nshards=16, timeout=3000)),
        min_evaluations=150000,
    ),
    "C06": dict(
        technique="differential execution of lookup / lookup_addrs / lookup_all against a flat-map model of RFC 1034 §4.3.2 "
                  "and RFC 4592 (existence = some owner at or below the name; closest encloser; topmost cut)",
        rule="zones of 5-40 records over the label alphabet {a,b,*,c} (apex ., z., a.z., b.a.z.; IN and CH; NS at several "
             "depths, CNAMEs, MX, empty non-terminals, wildcards under and beside cuts, case variants); every name within two "
             "labels of any node or RDATA target, random case; each name x one of 9 types x search_below_cuts x unchecked "
             "(unchecked only for in-zone names; names whose wildcard source owns NS are counted and excluded). Variant, RRset "
             "contents, TTL, referral owner and NS set, source of synthesis are compared. distinct = (outcome, options, type); a third of the zones are also offered records that must be rejected (wrong class, outside the zone, TTL mismatch) and the rejected owners, their parents and children are looked up",
        assumptions=COMMON_ASSUMPTIONS + ["unchecked=true is only combined with in-zone names (the contract leaves other cases undefined)"],
        quick=plans(dict(build="dbg", nshards=16), dict(build="miri", nshards=4, timeout=900)),
        thorough=plans(dict(build="dbg", nshards=16), dict(build="rel", nshards=16), dict(build="asan", nshards=16, scale=0.2), dict(build="miri", nshards=16, timeout=3000)),
        min_evaluations=1000000,
    ),
    "C20": dict(
        technique="history monitor: every add() mirrored into the flat model; result kinds compared; full snapshot "
                  "(iter_by_node, iter_by_rrset, soa, ns) compared before/after rejected adds and at the end",
        rule="add sequences of 5-40 records over a 4-label alphabet with out-of-zone owners, parent-of-apex owners, class "
             "mismatches, TTL mismatches (incl. TTLs with the top bit set), duplicates and case variants of owners and RDATA "
             "names; evaluations = add operations + final comparisons; distinct = (node count, RRset count, SOA count) classes; a quarter of the labels come from the edges of the letter ranges and their case-bit neighbours (z, Z, y, zz, aZ, @, [, `, {, 0, -, 0xc1); hostile adds include out-of-zone owners with a label that spells the apex's wire form",
        assumptions=COMMON_ASSUMPTIONS,
        quick=plans(dict(build="dbg", nshards=16), dict(build="miri", nshards=4, timeout=900)),
        thorough=plans(dict(build="dbg", nshards=16), dict(build="rel", nshards=16), dict(build="asan", nshards=16, scale=0.2), dict(build="miri", nshards=16, timeout=3000)),
        min_evaluations=100000,
    ),
    "C21": dict(
        technique="differential execution of Zone::validate against a reference checker over the flat model (checks 2,3,5-10 "
                  "of the module documentation), as required <= reported <= allowed",
        rule="zones over a 4-label alphabet with 0/1/2 SOA records, apex NS present or missing, delegations with name servers "
             "inside the child, in a sibling child, in the parent, outside; glue present/missing; wildcards owning NS; CNAME "
             "with other data and duplicate CNAMEs; MX targets with and without addresses; both glue policies; classes IN, CH "
             "and HS (no address types); 1/12 with malformed NS/MX RDATA. distinct = (class, policy, set of issue kinds)",
        assumptions=COMMON_ASSUMPTIONS + ["issues that stem only from NS records occluded by a higher delegation are allowed but not required (the code documents this as an open TODO)"],
        quick=plans(dict(build="dbg", nshards=16)),
        thorough=plans(dict(build="dbg", nshards=16), dict(build="rel", nshards=16), dict(build="asan", nshards=16, scale=0.2), dict(build="miri", nshards=16, timeout=3000)),
        min_evaluations=10000,
    ),
    "C22": dict(
        technique="history monitor with unique entry ids: after every insert/remove, lookup and get on every probe name, "
                  "iter() and the returned old entries are compared with a reference map",
        rule="histories of 2-24 insert/remove operations over 9 nested names (., z., a.z., b.a.z., c.b.a.z., b.z., a.b.z., "
             "other., A.Z.) in 3 classes with entries in all three states; after each step 27 probe names x 3 classes; plus "
             "SingleZoneCatalog lookup/get. distinct = (history length, final entry count)",
        assumptions=COMMON_ASSUMPTIONS,
        quick=plans(dict(build="dbg", nshards=16), dict(build="miri", nshards=4, timeout=900)),
        thorough=plans(dict(build="dbg", nshards=16), dict(build="rel", nshards=16), dict(build="asan", nshards=16, scale=0.2), dict(build="miri", nshards=16, timeout=3000)),
        min_evaluations=100000,
    ),
    "C10": dict(
        technique="requests signed by the harness's own HMAC-SHA1/SHA256 (RFC 2202/4231 self-tested); responses decoded by W; "
                  "response MACs recomputed per RFC 8945 §4.3 from the request MAC; outcome oracle per RFC 8945 §5.2 order",
        rule="scenarios = catalog + 1-3 keys (both algorithms, 1-100-octet secrets, key names related to zone names, 190-octet "
             "names); 24 signed queries per scenario drawn from: valid (time offset within fudge-10 s), allowed truncation, "
             "corrupted MAC, unknown key, unknown algorithm, key used with the other algorithm, MAC length outside "
             "[max(10,half),full], stale and future times (>= 10 s outside the window), corrupted MAC + stale; key names "
             "spelled in random case; UDP and TCP; EDNS on/off. distinct = (variant, algorithm, RCODE, TC) classes; every 64th case runs the TSIG size sweep (QNAME length 2..255 x key name near the limit x valid / stale / corrupted / unknown key / short MAC x no EDNS / 512 / server size): every request must get a response; one request in twelve carries enough ignorable additional records to make ARCOUNT 255 / 256 / 257 / 512; a tenth of the scenarios run a server without any key (every signed request must get BADKEY)",
        assumptions=COMMON_ASSUMPTIONS + [
            "the server reads the real clock: time offsets are drawn >= 10 s inside or outside the fudge window, and server "
            "times are accepted within 5 s of the harness's clock",
            "when question + OPT + TSIG cannot fit the transport limit only 'well-formed, within limit, no answer data' is demanded",
            "Miri cannot execute the sha1/sha2 assembly; this property is covered natively and under ASan/valgrind"],
        quick=plans(dict(build="dbg", nshards=16)),
        thorough=plans(dict(build="dbg", nshards=16), dict(build="rel", nshards=16), dict(build="asan", nshards=16, scale=0.2),
                       dict(build="vg", nshards=16, scale=0.01, timeout=3000)),
        min_evaluations=50000,
    ),
    "C11": dict(
        technique="MACs produced by Writer::set_tsig/finish_with_mac compared with an independent RFC 8945 §4.3 computation; "
                  "verification driven over time-window edges, every MAC length, and single-octet corruption of every covered octet",
        rule="messages built with the Writer (random header, 0-1 question, 0-3 records, optional OPT), signed as request / "
             "response / subsequent with both algorithms, 1-128-octet keys, times 0 / 2^48-1 / random, fudge 0/1/300/65535, "
             "errors incl. BADTIME (other-data), prior MACs of 0-64 octets; per message: 5 time probes (edges of the window), "
             "9 MAC lengths around the allowed range, a wrong truncated MAC, bit 0 flipped in every octet from offset 2 "
             "(<= 260 octets in quick), corrupted prior MAC, wrong key. distinct = (mode, algorithm, error, prior length) and probe classes; corruption uses four single-bit masks per covered octet (0x01, 0x02, 0x04, 0x80)",
        assumptions=COMMON_ASSUMPTIONS + [
            "octets 0-1 (message ID) are not corrupted: the digest covers the original ID from the TSIG RR instead",
            "bit 5 (a pure ASCII-case change in a name) is never the flipped bit, and the top bit of the TSIG RR's TTL is not flipped "
            "(RFC 2181 §8: a TTL with the top bit set is read as zero, which is what the library digests)",
            "for subsequent messages only the timers of the TSIG RR are covered (RFC 8945 §4.3.3.1); corruptions of other TSIG "
            "fields that still verify are counted, not flagged"],
        quick=plans(dict(build="dbg", nshards=16)),
        thorough=plans(dict(build="dbg", nshards=16), dict(build="rel", nshards=16), dict(build="asan", nshards=16, scale=0.2),
                       dict(build="vg", nshards=16, scale=0.01, timeout=3000)),
        min_evaluations=100000,
    ),
    "C12": dict(
        technique="random Writer programs against a shadow model (only successful operations applied); the finished message "
                  "is decoded by W and compared field by field; MACs by the harness HMAC; size-limit and no-needless-"
                  "truncation oracles from bounds on the limit in force",
        rule="programs of 1-28 operations over every public Writer method (header setters, add_question, the six "
             "add_*_rr/rrset with hints that obey the API contract incl. Explicit pointers from HintPointerVec, set_limit, "
             "set_compression_mode, set_edns, set_extended_rcode 0..8191, set_rcode, set_tsig in all four modes incl. BADTIME, "
             "update_time_signed, clear_rrs, into_template/try_from_template(_as_tsig_subsequent) into smaller/larger buffers); "
             "12 pool names with shared suffixes and case variants plus ~190-octet names; 14 class/type pairs (all name-bearing "
             "RFC 1035 types, SRV, CH A, TXT, A, unknown); 1/25 RDATA damaged; buffers 12..70000, initial limits below the "
             "buffer size. distinct = (section sizes, EDNS, TSIG mode, pointer count, final compression mode) classes; after every header operation the Writer's getters (id, qr, opcode, aa, tc, rd, ra, rcode, qdcount, ancount, nscount) are compared with the model",
        assumptions=COMMON_ASSUMPTIONS + [
            "the exact size limit after set_limit() below the current size depends on the compressed cursor; the monitor "
            "uses sound lower/upper bounds (uncompressed size of what was accepted)",
            "Miri cannot run the hashing assembly: under Miri only the unsigned TSIG mode is used"],
        quick=plans(dict(build="dbg", nshards=16), dict(build="miri", nshards=4, timeout=900)),
        thorough=plans(dict(build="dbg", nshards=16), dict(build="rel", nshards=16), dict(build="asan", nshards=16, scale=0.2), dict(build="miri", nshards=16, timeout=3000)),
        min_evaluations=50000,
    ),
    "C13": dict(
        technique="same Writer programs as C12; pointer oracle over W's metadata (pointer position, target, physical label "
                  "starts, which field each name belongs to)",
        rule="as C12; judged: every first pointer of every name targets a lower offset that is the first octet of a "
             "non-root label physically written in an earlier name and not inside the header; RDATA of SRV / CH A / unknown "
             "types and the TSIG RDATA are octet-identical to the input (no pointer can have been emitted there); no name "
             "written while compression was disabled contains a pointer; none at all when it was disabled throughout. "
             "evidence counts pointers checked (outcome_histogram.pointers-checked); two thirds of the programs with a 70 000-octet buffer start with one padding record that puts the following names within 90 octets of offset 16384 (the first offset a 14-bit pointer cannot express); hint pointers that became stale (clear_rrs, rolled-back adds) are passed back as explicit hints when they lie at or beyond the cursor, after directed records that put the cursor exactly on one (histogram keys stale-hints:*); a reference-decoder BadPointer error on the finished message and the writer's own 'invalid pointer found during compression' panic count as C13 violations",
        assumptions=COMMON_ASSUMPTIONS,
        quick=plans(dict(build="dbg", nshards=16), dict(build="miri", nshards=4, timeout=900)),
        thorough=plans(dict(build="dbg", nshards=16), dict(build="rel", nshards=16), dict(build="asan", nshards=16, scale=0.2), dict(build="miri", nshards=16, timeout=3000)),
        min_evaluations=50000,
    ),
    "C23": dict(
        technique="independent pretty-printer F renders generated record lists in RFC 1035 §5 syntax with random presentation "
                  "choices; the parser's output (records and line numbers) must equal the generating list",
        rule="1-8 records per file over 24 class/type pairs (every type with a presentation form, CH A, class-specific types in "
             "other classes and unknown types via RFC 3597 generic form); owners/targets with labels containing . \\ \" ; ( ) $ @ "
             "space, tab, NUL, 0xff, 63-octet labels, labels that look like TTLs or classes; per field random choices: omitted "
             "owner, omitted/reordered TTL and class, TYPEnnn/CLASSnnn, random mnemonic case, relative names, @, $ORIGIN "
             "(relative too) and $TTL lines, parentheses opened at any field with line breaks and comments inside, quoted and "
             "unquoted strings, \\DDD and \\c escapes, generic RDATA with 1-4 hex words, CRLF files, tabs, no final newline; input "
             "fed through a Read that returns 1-7 octets per call half of the time. distinct = sets of presentation features used; one name in 25 is built to end at exactly 255 / 254 / 250 octets below the origin",
        assumptions=COMMON_ASSUMPTIONS + ["F is the trusted base: it renders only constructs defined by RFC 1035 §5.1, RFC 2308 §4 ($TTL) and RFC 3597 §5"],
        quick=plans(dict(build="dbg", nshards=16), dict(build="miri", nshards=4, timeout=900)),
        thorough=plans(dict(build="dbg", nshards=16), dict(build="rel", nshards=16), dict(build="asan", nshards=16, scale=0.2), dict(build="miri", nshards=16, timeout=3000)),
        min_evaluations=20000,
    ),
    "C24": dict(
        technique="panic monitor and output-validity oracle over the parser iterator fed with hostile text (through a "
                  "1-7-octets-per-read stream); three extra next() calls after the end",
        rule="inputs: random octets (0-120), token soups from 40 syntax tokens (parens, quotes, backslashes, directives, "
             "mnemonics incl. NULL/OPT/TSIG and TYPE10/41/250, \\#, numbers, addresses), and F-rendered valid files with 1-3 "
             "mutations (truncate, delete, insert, replace, forbidden type substituted). Every yielded record must have a type "
             "other than NULL/OPT/TSIG and RDATA accepted by the reference validators; nothing may follow an error. "
             "distinct = (input kind, records yielded, ended in error); every input is also parsed through Parser::records_only() (same records and line numbers up to the first $INCLUDE or error, then exactly one error, then nothing), and a sixth of the inputs get a well-formed or malformed $INCLUDE line inserted at a line boundary; a sixth of the inputs are 'long-relative' files: an origin of 2-254 octets and a relative owner / NS / MX target / second $ORIGIN completing to 250-262 octets, in 63-octet or one-octet labels",
        assumptions=COMMON_ASSUMPTIONS + ["termination is bounded by the finite input; a watchdog firing would be reported as inconclusive"],
        quick=plans(dict(build="dbg", nshards=16), dict(build="miri", nshards=4, timeout=900)),
        thorough=plans(dict(build="dbg", nshards=16), dict(build="rel", nshards=16), dict(build="asan", nshards=16, scale=0.2), dict(build="miri", nshards=16, timeout=3000)),
        min_evaluations=50000,
    ),
    "C25": dict(
        technique="trees of real files on disk parsed by zone_file::fs::Parser; expected = F's generating record list with file "
                  "and line attribution; second reference = quandary's stream parser on the textual flattening",
        rule="trees of 1-6 files in ./, sub/, sub/deeper/, other/ (each file included once, relative paths with ../, quoted or "
             "not), directive origins present/absent, $TTL lines and blank-owner / omitted-TTL / omitted-class records right "
             "after an include, depth limits 0-4 around the depth the tree needs. distinct = (files, depth needed, limit, too deep); a quarter of the root files have no $ORIGIN at all (absolute names only), and half of the returns from an include into such a file are followed by a relative-owner or @ line that must end the parse with an error; half of the cases change into the tree (mostly into the root file's own directory) and open the root file by a relative path (bare, './', 'other/../'); one included file in six has the octet 0xF6 in its name (not valid UTF-8; spelled \\246 in the directive)",
        assumptions=COMMON_ASSUMPTIONS + ["files are written under /verif/work (removed afterwards)", "IN WKS values are not compared here (known finding of C23)"],
        quick=plans(dict(build="dbg", nshards=16)),
        thorough=plans(dict(build="dbg", nshards=16), dict(build="rel", nshards=16), dict(build="asan", nshards=16, scale=0.2)),
        min_evaluations=1000,
    ),
    "C26": dict(
        technique="history monitor over virtual time: the verif_hooks time-shift hook ages every bucket under its own lock; "
                  "each response is classified sent/slipped/dropped at the handle_message boundary and compared step by step "
                  "with a u128 reference token bucket",
        rule="one stream per history (fixed source and QNAME) in one of the three categories (NOERROR / NXDOMAIN / REFUSED); "
             "rate in {1,2,3,7,100,10^6,2^31}, window in {1,2,15,60,4000} with rate*window < 2^32, slip in {0,1,2,5}; 5-400 "
             "steps with gaps from {0 (bursts), 1, 2, window, window+-1, ceil(2^32/rate)+-1, 10^5, 10^9, 3 years, 2^32, "
             "2^32+1, 0-9}; evaluations = steps judged; histories whose real duration reached 0.5 s are discarded "
             "(inconclusive, counted). distinct = (rate, window, slip, category, number of limited steps) classes; plus three real-time histories per shard that check the carry-over of the unused fraction of a second between refills (rate 1, window 3; judged only when the measured times leave no doubt about the whole seconds)",
        assumptions=COMMON_ASSUMPTIONS + [
            "shifts are whole seconds and the limiter keeps the sub-second remainder, so the reference is exact as long as the "
            "real duration of a history stays below one second; histories taking >= 0.5 s are discarded",
            "with slip n > 1 a limited response may be either slipped or dropped"],
        quick=plans(dict(build="dbg", nshards=16)),
        thorough=plans(dict(build="dbg", nshards=16), dict(build="rel", nshards=16), dict(build="asan", nshards=16, scale=0.3)),
        min_evaluations=100000,
    ),
    "C27": dict(
        technique="pairs of requests against a fresh server with a limit of one response per stream; the second response "
                  "is limited iff the reference (prefix masks, IPv4-mapped canonicalisation, category from the reference "
                  "responder, QNAME or wildcard source) says both belong to one stream",
        rule="prefix lengths v4 in {0,1,8,16,24,31,32}, v6 in {0,1,48,56,63,64}; table sizes {1,7,1024,65537}; slip 0/1; second "
             "request derived from the first: same or one bit flipped at/inside/outside the prefix boundary, IPv4 vs mapped "
             "IPv6, case variants, two names under one wildcard / under different wildcards, NODATA vs answer, NXDOMAIN vs "
             "REFUSED vs FORMERR, TCP, NOTIFY/UPDATE/STATUS opcodes. distinct = (relation, limited, category, prefixes, wildcard); an eighth of the requests carry an OPT with EDNS version 1 (BADVERS, whose low four RCODE bits equal NOERROR: it belongs to the per-prefix stream of all other RCODEs); sources include IPv6 addresses in ::/96 (the IPv4-compatible spelling of the IPv4 addresses in play), which are IPv6 sources, not IPv4-mapped ones; a quarter of the servers keep the default prefix lengths (/24, /56) without the setters being called; the zone holds mail. / ma.il. / m.ail.rrl.test. (same octets, different label boundaries: different names and streams); the zone also has a wildcard that owns a CNAME (*.cn.rrl.test.)",
        assumptions=COMMON_ASSUMPTIONS + ["pairs taking >= 0.5 s of real time are discarded", "a 2^-32 QNAME-hash collision would be a false alarm"],
        quick=plans(dict(build="dbg", nshards=16)),
        thorough=plans(dict(build="dbg", nshards=16), dict(build="rel", nshards=16)),
        min_evaluations=30000,
    ),
    "C28": dict(
        technique="conservation oracle over concurrent bursts (sent + slipped + dropped = N and sent = min(N, rate*window)) on "
                  "real OS threads released by a barrier; ThreadSanitizer and Miri (data-race detection) builds of the same workload",
        rule="T in {2,4,8,16} threads (2-3 under Miri), capacity in {1,5,50,1000} as rate*1 or (rate/5)*5, N from below the "
             "capacity to 20x, yield_now after every / every 7th / no call; bursts that took >= 0.5 s (pre-fill included) are discarded. The "
             "monitor records how many calls were in flight at once (max_overlap_observed); distinct = (T, capacity, N/capacity, overlap); half of the bursts against multi-second windows first fill the bucket sequentially, advance the virtual clock by k < window seconds and then expect exactly rate x k responses from the concurrent burst; threads leave a spinning start line within nanoseconds of one another",
        assumptions=COMMON_ASSUMPTIONS + ["a burst (together with its sequential pre-fill, if any) is judged only if it finished within 0.5 s of real time (otherwise a further refill is legitimate)"],
        quick=plans(dict(build="dbg", nshards=16, parallel=4), dict(build="miri", nshards=4, timeout=900)),
        thorough=plans(dict(build="dbg", nshards=16, parallel=4), dict(build="rel", nshards=16, parallel=4),
                       dict(build="tsan", nshards=8, parallel=2, scale=0.1), dict(build="miri", nshards=16, timeout=3000, miriflags="-Zmiri-many-seeds=0..8")),
        min_evaluations=300,
    ),
    "C29": dict(
        technique="many short histories on real threads with an event log recorded at the client boundary (submit call/return, "
                  "task start/end, shutdown call/return, await call/return) and an offline checker; failpoints behind the "
                  "verif_hooks feature inject delays between the pool's critical sections (none / random / targeted at the "
                  "hand-over to a lingering worker); Miri (deadlock and data-race detection, several schedule seeds) and "
                  "ThreadSanitizer on the same workload; quiescence-based deadlock watchdog natively",
        rule="histories: 0-2 permanent workers, linger 0 / 200 us / 1 ms / 5 ms, 1-4 submitters x 1-6 tasks using submit and "
             "submit_or_spawn, tasks of 0-300 us, submit spacing around the linger timeout, ThreadPool::shut_down before "
             "ThreadGroup::shut_down in 1/3, shutdown racing the submitters in 1/3, one submission after await returned. "
             "Checked: accepted => exactly one start; rejected => none; all accepted tasks ended before await_shutdown "
             "returned; submissions after shut_down returned are rejected; no task event after await returned. "
             "distinct = (configuration, failpoint policy, order of event kinds) = distinct interleavings observed; 0-3 further threads block in await_shutdown before shutdown begins and must all be released",
        assumptions=COMMON_ASSUMPTIONS + [
            "delays are injected only where a thread can really be pre-empted (inside a critical section a delay only widens a window that exists anyway)",
            "native deadlock verdict: a history that does not finish in 20 s is a violation only if the process is quiescent "
            "(no CPU time and no events for 6 s, five times every timeout involved); otherwise inconclusive"],
        quick=plans(dict(build="dbg", nshards=16), dict(build="miri", nshards=4, timeout=900)),
        thorough=plans(dict(build="dbg", nshards=16), dict(build="rel", nshards=16), dict(build="tsan", nshards=8, parallel=4, scale=0.1),
                       dict(build="miri", nshards=16, timeout=3400, miriflags="-Zmiri-many-seeds=0..4")),
        required_hook_hits=["pool.submit_or_spawn.accepted", "pool.worker.timed_out", "pool.worker.loop_top"],
        min_evaluations=2000,
    ),
    "C32": dict(
        technique="generation-marked catalogs and key sets swapped while reader threads query; per-response oracle: all markers "
                  "equal (one snapshot), logical-clock freshness window [published-before-call, started-after-call], TSIG outcome "
                  "consistent with one key set; failpoints (verif_hooks) perform swaps inside requests on the handling thread; "
                  "ThreadSanitizer and Miri builds of the same workload",
        rule="each history: 2-12 reader threads (half TSIG-signing with the key generation they last saw) against one Server "
             "while a swapper alternates set_catalog / set_tsig_keys over up to 300 generations with pauses 0/20/200 us; "
             "failpoint mode 0 (none), 1 (catalog swap inside every third request right after the snapshot / before dispatch), "
             "2 (key-set swap before dispatch). evaluations = responses judged; evidence: responses overlapping a swap, "
             "in-request swaps, signed answers verified, BADKEY responses, failpoint hit counts. distinct = (readers, failpoint "
             "mode, generations published, overlap seen, signed ok seen, BADKEY seen); catalog swaps and key-set swaps are ordered separately, and in half of the histories a second thread rolls keys over while the first swaps catalogs (the two setters run concurrently); every history ends with 24 trials in which two threads install two fresh catalog generations at the same instant (spinning gate) and the next request must be answered from one of the two",
        assumptions=COMMON_ASSUMPTIONS + ["freshness is judged with logical clocks only (no wall-clock): a response generation g must satisfy published-before <= g <= started-after"],
        quick=plans(dict(build="dbg", nshards=16, parallel=4), dict(build="miri", nshards=2, timeout=900)),
        thorough=plans(dict(build="dbg", nshards=16, parallel=4), dict(build="rel", nshards=16, parallel=4),
                       dict(build="tsan", nshards=8, parallel=2, scale=0.2), dict(build="miri", nshards=8, timeout=3400, miriflags="-Zmiri-many-seeds=0..4")),
        required_hook_hits=["server.after_catalog_snapshot", "server.before_dispatch"],
        min_evaluations=100000,
    ),
    "C30": dict(
        technique="the real BlockingIoProvider and TokioIoProvider run in-process on loopback sockets; reference = "
                  "Server::handle_message called directly on the same server; byte-stream oracle for TCP (exact concatenation of "
                  "length-prefixed responses up to the first response-less request, then EOF) and per-datagram oracle for UDP",
        rule="provider instances (blocking with 0/1/4 base workers, linger 0/1 s, 1-2 UDP workers; Tokio multi-thread runtime; "
             "IPv4 and IPv6; bound to the loopback address or to the wildcard address, which exercises the packet-info path) x "
             "12 (quick) / 60 (thorough) TCP and UDP batches each. TCP batch: 1-20 pipelined requests (valid, malformed, "
             "response-less: QR set, < 12 octets, QDCOUNT 2, mostly last, sometimes in the middle) written whole / octet by "
             "octet / 1-3 octets / 1-700 octets per segment with delays up to 50 ms (read timeout is 5 s). UDP batch: 1-3 "
             "client sockets x 1-6 datagrams with unique IDs; every datagram received must come from the server address, match "
             "an outstanding ID once, equal the reference response and fit the payload size; missing datagrams are not "
             "violations. distinct = (provider, batch shape) classes; a fourteenth of the TCP requests are padded to 65535 / 65534 / 65533 / 65532 / 32768 / 16384 / 16383 / 4096 octets. Known finding (open): when the server closes after a response-less request while further client octets are unread, whole earlier responses may be lost to the reset; that exact shape is reported as KNOWN-FINDING, every other difference as a violation; batches with boundary-length requests are written in segments of 4 000-30 000 octets, and a batch whose writing took more than 4 s is not judged (the statement's premise is arrival within the 5 s read timeout); each shard runs one slow client per provider: request 1 in two segments 3.2 s apart, 2.5 s idle, request 2 (each message has its own 5 s allowance); every instance also serves a 50 KiB TXT RRset and every fourth shard runs one back-pressure batch per provider (about 110 pipelined queries for it, the client starts reading 1.5 s late, every response must arrive whole and in order)",
        assumptions=COMMON_ASSUMPTIONS + [
            "timeouts of the harness (connect 5 s, read 8 s) make a batch inconclusive, never violated",
            "nightly builds (ASan/TSan) exclude the Tokio provider: proc-macro2 1.0.51 does not compile on the nightly toolchain"],
        quick=plans(dict(build="dbg", nshards=16)),
        thorough=plans(dict(build="dbg", nshards=16), dict(build="rel", nshards=16), dict(build="asan", nshards=8, scale=0.25),
                       dict(build="tsan", nshards=8, scale=0.25), dict(build="vg", nshards=8, scale=0.06, timeout=3400)),
        min_evaluations=300,
    ),
    "C31": dict(
        technique="the real quandaryd binary (built from /repo's working tree) runs as a child process on a loopback port "
                  "with a generated TOML configuration; every step edits zone files (explicit strictly increasing mtimes) "
                  "and/or the configuration, sends SIGHUP, waits until a sentinel zone whose SOA serial is the step number "
                  "shows the reload is visible, then queries every zone over UDP; reference state machine per exact zone "
                  "name {absent, failed-never-loaded, serving(version)}; versions are carried in the SOA serial",
        rule="96 (quick) / 640 (thorough) daemon histories of 6-14 (quick) / 10-40 (thorough) reload steps over six "
             "nested and unrelated zone names (z., sub.z., a.sub.z., b.z., other., deep.er.other.); per step each zone "
             "with probability 0.3 gets a new file version (valid / valid with a validation warning / syntax error / missing apex NS / missing apex NS plus a warning / file removed) and "
             "with probability 0.2 is added to or removed from the configuration at a random position, with probability 0.1 "
             "gets a newer version staged under its other path with an mtime 5 s OLDER than the file loaded in that step, and "
             "with probability 0.1 the configuration switches to the staged path (a changed path must be loaded whatever the "
             "mtimes say; no file's mtime ever goes backwards); after every load "
             "every zone is queried for its SOA: serving(v) needs an authoritative SOA with serial v owned by the zone, "
             "never-loaded needs SERVFAIL, absent needs the answer of the longest configured ancestor (REFUSED / "
             "SERVFAIL / NXDOMAIN with the ancestor's current SOA). distinct = (zone, observed state class, initial "
             "load or reload) classes; the thorough tier repeats part of the workload with quandaryd under valgrind memcheck; every zone file $INCLUDEs a side file that histories break and repair independently of the zone file (a failed load must be retried at every reload until it succeeds); a third of the zones are configured through symbolic links (both of their paths), so data and modification time are those of the link target",
        assumptions=COMMON_ASSUMPTIONS + [
            "mtime-based change detection is part of the daemon's contract: every rewritten file gets a strictly larger mtime",
            "the configuration file itself is always valid; a reload that does not become visible within the poll budget "
            "or a lost datagram makes the history inconclusive, never violated"],
        quick=plans(dict(build="dbg", nshards=16)),
        thorough=plans(dict(build="dbg", nshards=16), dict(build="rel", nshards=16),
                       dict(build="dbg", nshards=8, scale=0.05, env={"QV_DAEMON_VALGRIND": "1"}, timeout=3400)),
        min_evaluations=1000,
        needs_daemon=True,
    ),
    "C14": dict(
        technique="differential execution against an independent RFC 1035 §4.1.4 decoder; panic monitor; Miri/ASan on the same workload",
        rule="exhaustive: every buffer of length <= 5 over the 12 significant octets {0,1,2,3,63,64,0x80,0xbf,0xc0,0xc1,0xff,'a'} "
             "at every start offset 0..len+1 (1 875 494 (buffer,start) pairs; length <= 3 under Miri); plus seeded structured "
             "buffers up to ~600 octets (pointer chains, 255/256-octet names, 127/128 labels, forward/self pointers, "
             "truncations) at every name start, a random offset and the end. All of try_from_compressed, skip_compressed, "
             "try_from_uncompressed(_all), validate_uncompressed(_all) are compared on accept/reject, name and length. "
             "distinct = distinct outcome classes (accept/reject reason, label count, pointer count, field length, "
             "skip length, uncompressed verdicts); one in forty structured buffers is a chain of 100-280 strictly backward pointers (bare, or occasionally carrying a label); one structured buffer in sixteen is padded so that the chunk under test starts around 16 384, 32 768, 65 536 or 131 072 and ends in a pointer back into the low part (histogram keys far-start:*)",
        assumptions=COMMON_ASSUMPTIONS + ["error *kinds* are not compared, only acceptance, name and length"],
        quick=plans(dict(build="dbg", nshards=16), dict(build="miri", nshards=4, timeout=900)),
        thorough=plans(dict(build="dbg", nshards=16), dict(build="rel", nshards=16),
                       dict(build="asan", nshards=16, scale=0.3), dict(build="miri", nshards=16, scale=1.0, timeout=3000)),
        min_evaluations=1500000,
    ),
    "C15": dict(
        technique="reference-cursor monitor: every Reader operation is compared with an independent decoder on "
                  "accept/reject, every field and the new position; panic monitor; Miri/ASan on the same workload",
        rule="seeded messages built by the harness encoder (0-2 questions, 0-2 records per section over 28 class/type "
             "combinations, compressed and plain names, TTLs with the top bit set), 0-2 byte-level mutations (truncation "
             "at field boundaries, counts, RDLENGTH, pointer retargeting, inserts/deletes/flips), plus random octet strings; "
             "each driven by 1-14 random operations out of read_question, skip_question, read_rr, skip_rr, "
             "peek_rr+{fields,owner,skip,parse}, mark, rewind, at_eom, message_to_cursor. evaluations = operations "
             "judged; distinct = (first three operations, ended at EOM or not) classes",
        assumptions=COMMON_ASSUMPTIONS + ["TTLs are compared after the RFC 2181 §8 interpretation (top bit set = 0)"],
        quick=plans(dict(build="dbg", nshards=16), dict(build="miri", nshards=4, timeout=900)),
        thorough=plans(dict(build="dbg", nshards=16), dict(build="rel", nshards=16),
                       dict(build="asan", nshards=16, scale=0.3), dict(build="miri", nshards=16, timeout=3000)),
        min_evaluations=500000,
    ),
    "C16": dict(
        technique="differential execution against a reference name model (text parser, RFC 4034 order, case folding); "
                  "model-based test of NameBuilder with atomicity oracle; Miri on the unsafe DST conversions",
        rule="seeded pools of 2-5 valid names (boundary shapes: root, 63-octet labels, 255-octet names, 127 labels, "
             "arbitrary octets, case variants, shifted label boundaries, parents/children/siblings); every name: "
             "Display->FromStr round trip, independent parse of the rendering, all accessors; every ordered pair: "
             "==, Hash, cmp, eq_or_subdomain_of, LowercaseName, labels; triples: transitivity and sorting; random and "
             "mutated text strings: acceptance equals the reference parser's; random NameBuilder programs with "
             "failed-operation atomicity. distinct = outcome classes (label count, wire length bucket, wildcard, "
             "escapes; pair relation; text verdict; builder outcome); pools also contain wire-confusable names: one label whose octets are junk plus the wire form of a suffix of another pool name; every generated text is also parsed straight into a LowercaseName and compared with the lower-cased reference (a third of the decimal escapes fall in 060..124)",
        assumptions=COMMON_ASSUMPTIONS + ["hash comparison uses std DefaultHasher with its fixed keys; a 2^-64 collision would be a false alarm"],
        quick=plans(dict(build="dbg", nshards=16), dict(build="miri", nshards=4, timeout=900)),
        thorough=plans(dict(build="dbg", nshards=16), dict(build="rel", nshards=16),
                       dict(build="asan", nshards=16, scale=0.3), dict(build="miri", nshards=16, scale=0.3, timeout=3000)),
        min_evaluations=500000,
    ),
    "C18": dict(
        technique="differential execution against per-type reference validators and a reference decompressing reader; "
                  "writer->reader round trip; panic monitor; Miri/ASan",
        rule="per case: 4 (class,type) pairs out of 28 (all types the library knows, CH A, class-specific types in the "
             "wrong class, unknown types), each with valid RDATA, two successive single-octet mutations and random junk, "
             "checked against validate(); a hand-encoded message with 1-4 records (compressed names) read with "
             "Rdata::read at the true span, neighbouring lengths/cursors, as a different type, at/after the end of the "
             "message, random (cursor,RDLENGTH) and after damaging one octet; and 1-5 valid records written by the Writer "
             "in a random compression mode and read back. distinct = (operation, class, type, verdict) classes; valid RDATA is also validated and read under other classes (IN, CH, HS, NONE, ANY, 0, 65280) than the one it was shaped for; a third of the write/read round-trip messages have a size limit of 40-400 octets, so that some writes fail in the middle of their RDATA and later records are written after a rollback; one round trip in eight starts with a padding record that puts the records under test within 48 octets of offset 16384",
        assumptions=COMMON_ASSUMPTIONS + ["under standard (case-insensitive) compression, read-back names are compared ignoring ASCII case"],
        quick=plans(dict(build="dbg", nshards=16), dict(build="miri", nshards=4, timeout=900)),
        thorough=plans(dict(build="dbg", nshards=16), dict(build="rel", nshards=16),
                       dict(build="asan", nshards=16, scale=0.3), dict(build="miri", nshards=16, timeout=3000)),
        min_evaluations=500000,
    ),
    "C19": dict(
        technique="all-pairs/all-triples check of Rdata::equals against a reference equality on collision-rich pools; "
                  "model check of RdataSetOwned insertion order; Miri",
        rule="per case one (class,type) out of 21 (all name-bearing pre-RFC 3597 types, CH A, IN SRV, the same types in "
             "other classes, nameless and unknown types) and a pool of 3-9 RDATA built from 5 names with case flips, "
             "trailing junk, truncations and single-octet mutations; all ordered pairs (meaning, reflexivity, symmetry), "
             "all triples (transitivity), and a shuffled insertion sequence into RdataSetOwned via insert and from_iter. "
             "distinct = (class, type, well-formedness of both sides, expected verdict) and set-shape classes; a third of the pools are judged under another class (IN, CH, HS, NONE, ANY, 0, 65280) or another type than the one they were shaped for",
        assumptions=COMMON_ASSUMPTIONS,
        quick=plans(dict(build="dbg", nshards=16), dict(build="miri", nshards=4, timeout=900)),
        thorough=plans(dict(build="dbg", nshards=16), dict(build="rel", nshards=16),
                       dict(build="asan", nshards=16, scale=0.3), dict(build="miri", nshards=16, timeout=3000)),
        min_evaluations=500000,
    ),
    "C17": dict(
        technique="exhaustive execution of the real conversions with round-trip and table oracles",
        rule="every 16-bit value of TYPE/QTYPE/CLASS/QCLASS/extended RCODE and every 8-bit opcode/RCODE value is "
             "executed (sharded by value mod 16); every case pattern of every mnemonic; three case patterns of the "
             "TYPEnnn/CLASSnnn prefix per value. distinct = distinct (kind, value) and (kind, mnemonic spelling) pairs. The Miri "
             "build of the thorough tier runs the values below 300, above 65199 and every 61st in between; the native builds run all",
        assumptions=COMMON_ASSUMPTIONS + ["mnemonic table taken from RFC 1035/3596/2782/6891/8945/2136"],
        quick=plans(dict(build="dbg", nshards=16)),
        thorough=plans(dict(build="dbg", nshards=16), dict(build="rel", nshards=16),
                       dict(build="miri", nshards=16, scale=1.0, timeout=3000)),
        min_evaluations=700000,
    ),
}
