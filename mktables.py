#!/usr/bin/env python3
"""Regenerates the tables of DESIGN.md §5 (defects) and §7 (seeded changes)
from known_findings.json and seeded/*/meta.json (between the marker lines)."""
import json, os, re
V = os.path.dirname(os.path.abspath(__file__))
s = open(os.path.join(V, 'DESIGN.md')).read()
k = json.load(open(os.path.join(V, 'known_findings.json')))
rows = ["| property | fix commit | signature the monitor reported | what failed |", "|---|---|---|---|"]
for f in k['fixed']:
    rows.append("| %s | `%s` | `%s` | %s |" % (f['property'], f['commit'], f.get('signature', ''), f['what'].replace('|', '/')))
fixed = "\n".join(rows)
rows = ["| seeded change | what it does | caught by |", "|---|---|---|"]
n = missed_first = 0
for d in sorted(os.listdir(os.path.join(V, 'seeded'))):
    m = json.load(open(os.path.join(V, 'seeded', d, 'meta.json')))
    n += 1
    if 'MISSED' in m['detected_by']:
        missed_first += 1
    extra = (" — " + m['note_after_fix_0f780e2']) if 'note_after_fix_0f780e2' in m else ""
    rows.append("| `%s` | %s | %s%s |" % (d, m['summary'].replace('|', '/'), m['detected_by'].replace('|', '/'), extra.replace('|', '/')))
seeded = "\n".join(rows) + "\n\n(%d seeded changes; %d were missed at first and led to a stronger workload.)" % (n, missed_first)
def put(name, body):
    global s
    a = "<!-- BEGIN:%s -->" % name
    b = "<!-- END:%s -->" % name
    i, j = s.index(a), s.index(b)
    s = s[:i + len(a)] + "\n" + body + "\n" + s[j:]
# cost table from the latest run logs (kept as is when the logs are not there)
def read_summary(path, seed=None):
    out = {}
    try:
        for line in open(path):
            f = line.split()
            if len(f) < 5 or not f[0].startswith('C'):
                continue
            if seed is not None and f[1] != 'seed=%s' % seed:
                continue
            ev = [x for x in f if x.startswith('evaluations=')]
            out[f[0]] = (f[3].replace('wall=', ''), f[4], ev[0].split('=')[1] if ev else '?')
    except FileNotFoundError:
        pass
    return out
q = read_summary(os.path.join(V, 'work/logs/quick-summary.txt'), 1)
t = read_summary(os.path.join(V, 'work/logs/thorough-summary.txt'))
if q and "<!-- BEGIN:cost-table -->" in s:
    rows = ["| property | quick: wall, verdict, evaluations | thorough: wall, verdict, evaluations |", "|---|---|---|"]
    for i in range(1, 33):
        pid = "C%02d" % i
        a = q.get(pid); b = t.get(pid)
        rows.append("| %s | %s | %s |" % (pid, "%s, %s, %s" % a if a else "-", "%s, %s, %s" % b if b else "not measured in the last pass"))
    put('cost-table', "\n".join(rows))
put('fixed-table', fixed)
put('seeded-table', seeded)
open(os.path.join(V, 'DESIGN.md'), 'w').write(s)
print("tables regenerated")
