#!/usr/bin/env python3
"""Regenerates the tables of DESIGN.md §5 (defects) and §7 (seeded changes)
from known_findings.json and seeded/*/meta.json (between the marker lines)."""
import json, os, re
V = os.path.dirname(os.path.abspath(__file__))
s = open(os.path.join(V, 'DESIGN.md')).read()
k = json.load(open(os.path.join(V, 'known_findings.json')))
rows = ["| property | fix commit | signature the monitor reported | what failed |", "|---|---|---|---|"]
for f in k['fixed']:
    rows.append("| %s | `%s` | `%s` | %s |" % (f['property'], f['commit'], f.get('signature', ''), f['what'].replace('|', '/')))
fixed = "\n".join(rows)
rows = ["| seeded change | what it does | caught by |", "|---|---|---|"]
n = missed_first = 0
for d in sorted(os.listdir(os.path.join(V, 'seeded'))):
    m = json.load(open(os.path.join(V, 'seeded', d, 'meta.json')))
    n += 1
    if 'MISSED' in m['detected_by']:
        missed_first += 1
    extra = (" — " + m['note_after_fix_0f780e2']) if 'note_after_fix_0f780e2' in m else ""
    rows.append("| `%s` | %s | %s%s |" % (d, m['summary'].replace('|', '/'), m['detected_by'].replace('|', '/'), extra.replace('|', '/')))
seeded = "\n".join(rows) + "\n\n(%d seeded changes; %d were missed at first and led to a stronger workload.)" % (n, missed_first)
def put(name, body):
    global s
    a = "<!-- BEGIN:%s -->" % name
    b = "<!-- END:%s -->" % name
    i, j = s.index(a), s.index(b)
    s = s[:i + len(a)] + "\n" + body + "\n" + s[j:]
put('fixed-table', fixed)
put('seeded-table', seeded)
open(os.path.join(V, 'DESIGN.md'), 'w').write(s)
print("tables regenerated")
