#!/usr/bin/env python3
"""Regenerates MANIFEST.json from checkcfg.PROPS (run after editing checkcfg.py)."""
import json
import subprocess
from checkcfg import PROPS

ALL = ["C%02d" % i for i in range(1, 33)]
hooks = subprocess.run(["git", "-C", "/repo", "log", "--format=%H %s", "--grep=^verif hooks:"],
                       stdout=subprocess.PIPE, text=True).stdout.strip().splitlines()
checks = []
for pid in ALL:
    if pid not in PROPS:
        continue
    cfg = PROPS[pid]
    checks.append({
        "property_id": pid,
        "quick_cmd": "./check %s quick" % pid,
        "thorough_cmd": "./check %s thorough" % pid,
        "evidence_file": "/verif/evidence/%s.json" % pid,
        "replay_cmd_template": "./check %s --replay {path}" % pid,
        "engine": "qv",
        "level_claimed": {
            "category": "exploration",
            "text": cfg.get("level_text", "Held on the executions the monitors observed (counts and outcome classes in the "
                                          "evidence file); no claim beyond the explored inputs/histories/schedules."),
            "design_ref": "DESIGN.md §3 " + pid,
        },
        "level_note": "; ".join(cfg["assumptions"]),
        "technique": cfg["technique"],
    })
manifest = {
    "version": 1,
    "setup_cmd": "./check setup",
    "hooks": {
        "guard": "cargo feature verif_hooks (off by default)",
        "enable": "the harness crate /verif/harness depends on /repo by path with features=[\"verif_hooks\",\"tokio\"]; "
                  "quandaryd for C31 is built without the feature",
        "baseline_off_cmd": "cd /repo && cargo test --workspace --no-fail-fast --offline",
        "source_commits": [h.split()[0] for h in reversed(hooks)],
        "add_only": True,
    },
    "engines": [{
        "name": "qv",
        "path": "/verif/harness",
        "serves_properties": [c["property_id"] for c in checks],
        "kind_free_text": "Rust harness linking the real quandary library: seeded generators, independent oracles "
                          "(wire decoder, name/zone/resolver models, HMAC, token bucket), panic/abort monitor, "
                          "event-log checkers; run natively (debug-assert+overflow-check and release profiles) and under "
                          "Miri / AddressSanitizer / ThreadSanitizer / valgrind by ./check",
    }],
    "checks": checks,
    "notes": "Runtime monitoring and sanitizers only. ./check exits 0 held / 1 violation / 2 harness error / 3 inconclusive. "
             "Known findings: /verif/known_findings.json.",
    "not_applicable": [
        {"property_id": pid, "reason": "monitor not built yet (planned in DESIGN.md §3; runtime monitoring applies)"}
        for pid in ALL if pid not in PROPS
    ],
}
json.dump(manifest, open("MANIFEST.json", "w"), indent=1)
print("claimed:", len(checks), "pending:", len(manifest["not_applicable"]))
